// C07 — implementation side.  Drives the real stir::OSMAPOSLReconstruction<DiscretisedDensity<3,float>> through its
// public C++ API on tiny generated PET problems and records, for every sub-iteration, the image before, the data the
// real objective function / prior deliver for that image (subset gradient-plus-sensitivity, subset sensitivity, prior
// gradient: DATA for the Lean model) and the image after.  The Lean model (lean/StirVerif/C07/Model.lean) recomputes the
// image after exactly in Rat.
//
// Streams
//   real   : PoissonLogLikelihoodWithLinearModelForMeanAndProjData + ProjMatrixByBinUsingRayTracing, geometries with span 1 / 3,
//            view mashing 1 / 2, non-TOF / TOF (15 TOF bins mashed to 3 or 5), Poisson data,
//            additive on/off, normalisation on/off, (subset) sensitivities, no prior / quadratic / RDP prior x additive /
//            multiplicative MAP model, relative-change clamps, inter-update / inter-iteration filters (a harness-defined
//            DataProcessor that records what it is given), every number of subsets the library accepts, start subset,
//            enforce_initial_positivity on/off, `zero end planes of segment 0` off/on (setter set_zero_seg0_end_planes and the
//            parameter-file keyword; plain-EM cases: a fixed pattern over geometry x data set, so that span 1 / span 3 / view
//            mashing / TOF each meet it with 1 and with several subsets, with and without additive term / normalisation).
//            One sub-iteration at a time through the public API:
//            set_start_subiteration_num(k); set_num_subiterations(k); reconstruct(image).
//            The data of the model come from a second, identically configured objective function object (probe).
//   explicit : (non-TOF geometries) the explicit system matrix (`mat`) and the data per bin (`dat`) are operations too: for the
//            first eligible and one more plain-EM sub-iteration of every case the Lean model forms numerator AND sensitivity
//            itself (`emExplicit`: bins of the subset, segments to process, end planes of segment 0 zeroed) and answers 24
//            voxels of the image after (`emx`)
//   filter : (round 4) user filters that are real registered data processors, alone and as the USER'S OWN ChainedDataProcessor
//            objects (2, 3 and more members, smoothing + sharpening in both orders, chains holding a thresholding member, nested
//            chains, null members) in the inter-update / inter-iteration / post-filter slot, through the setters and parsed from
//            parameter files, set_up() called 1-3 times in a row on the object; the Lean model wraps the slot as set_up does and
//            applies the object (operations `upd` / `eoi` / `post` with a section C); the data processors on their own (`flt`)
//   dvt    : divide_and_truncate through the public function on related viewgrams (0/0, zero / negative denominators ...)
//   synth  : the same class with its documented protected virtual hooks
//            (compute_sub_gradient_without_penalty_plus_sensitivity / get_subset_sensitivity) and a harness-defined prior
//            feeding adversarial data (zeros, tiny values, negatives, values around every clamp) to the update rule.
//   setup  : what set_up does to start images of every kind (positive, zeros, negatives, nothing positive).
//   chk    : malformed stream: parameter values at and beyond the documented ranges, set_up (or the setter) must refuse
//            exactly those.
// Oracle (property statement on the implementation; <implfile>.oracle)
//   formula      : explicit system matrix P (rows from the real ProjMatrixByBin), textbook EM formula per voxel; the subset
//                  sensitivities / gradient-plus-sensitivity / total sensitivity themselves against the explicit matrix;
//                  with `zero end planes of segment 0` P is the matrix WITHOUT the rows of the first and last sinogram of
//                  segment 0, for numerator, sensitivity, counts and log-likelihood alike
//   sens. files  : `recompute sensitivity := 1` + `sensitivity filename` / `subset sensitivity filenames` writes bitwise the
//                  sensitivity in use; `recompute sensitivity := 0` + the names (setters or parameter-file keywords) reads them:
//                  saved iterates bitwise those of the run that computes them; with files holding twice the sensitivity the
//                  sensitivity in use is twice the computed one (and the sub-iteration is the model's with S := 2 s)
//   nonneg       : non-negative image stays non-negative (all tests NaN-aware: a NaN is "not non-negative"); filter stream: with
//                  the user's filters on, after every sub-iteration; strictly positive after a fired inter-iteration filter
//   viewgrams    : every quotient of divide_and_truncate is a number in [0, 10^4], exactly 0 for a bin without counts (0/0
//                  included), y/ybar on the regular region
//   counts       : one subset, no additive: sum_j s_j lambda'_j = sum_b y_b
//   monotone     : one subset, no prior: Poisson log-likelihood (compute_objective_function) does not decrease, and equals
//                  the textbook value
//   mapden       : implied MAP denominator g*lambda/lambda' within [s/10, 10 s]
//   stepwise     : images of the one-at-a-time run = images saved by one uninterrupted reconstruct() (bitwise)
//   saving       : with save_interval s exactly the iterates k % s == 0 and the last one are written (absolute numbering)
//   history      : objects first used with another number of subsets, re-configured and set_up again = fresh objects (bitwise)
//   restart      : for every k, a fresh object started at k+1 from the Interfile image saved after k reproduces all later
//                  saved images bitwise (enforce_initial_positivity on and off; what set_up of the resumed run does to
//                  the saved image is also an operation for the model).  With the configuration of the uninterrupted
//                  run, the option on (default) and exact zeros in the saved image this FAILS on the unchanged tree:
//                  KNOWN-CANDIDATE restart:enforce-initial-positivity-lifts-exact-zeros (deterministic minimal
//                  reproduction: run_restart_witness).  The class is pinned from both sides: the same restart point with
//                  the option off must be bitwise equal, and the failing resumed run must be bitwise the run (option off)
//                  from the lifted image - anything else is an ORACLE-FAIL.  Switching the option ON for the resumed run
//                  of a reconstruction made with it off is another configuration and judged only when set_up has nothing
//                  to lift.
//   refusal      : set_up refuses numbers of subsets that are not balanced (every number 1..views+1; operation `bal` for the model)
//   post-filter  : run B has the post-filter of the configuration: called once, at sub-iteration num_subiterations, with the last
//                  iterate of the stepwise run (which has none); all other saved iterates untouched; restarts (k < N) reproduce
//                  the filtered last iterate (operation `post` for the model)
//   side branches: run E with report_objective_function_values_interval > 0 and write_update_image: saved iterates bitwise those
//                  of run B; update images written for every sub-iteration, = the model's `updateImage` (operation `uimg`), and
//                  image_k = image_{k-1} * limited update (bitwise)
//   param. files : the users' path: OSMAPOSLReconstruction(parameter file) + no-argument reconstruct(): from initial estimate
//                  0 / 1 (run P vs in-memory run M) and as restart from every saved image (initial estimate := file, start at
//                  subiteration number := k+1) = bitwise the in-memory path (operation `init` for the model)
//   TOF sens     : KNOWN-CANDIDATE em-formula:tof-subset-sensitivity-by-symmetries-of-non-tof-projector (see known_tof_sens_finding)
//   finite       : a finite non-negative image (not near overflow) never becomes non-finite; the two classes in which it does on the
//                  unchanged tree are pinned (TOF, every non-finite voxel has sensitivity 0 and a positive numerator and is seen by the
//                  TOF matrix): the one above and KNOWN-CANDIDATE em-formula:tof-voxels-seen-by-tof-matrix-only-have-sensitivity-0
//                  (see known_tof_zero_sens_finding)
// Usage: c07_osmaposl <seed> <quick|thorough> <opsfile> <implfile>
#include "stir_fixtures.h"
#include "common.h"
#include "stir/OSMAPOSL/OSMAPOSLReconstruction.h"
#include "stir/recon_buildblock/PoissonLogLikelihoodWithLinearModelForMeanAndProjData.h"
#include "stir/recon_buildblock/ProjMatrixByBinUsingRayTracing.h"
#include "stir/recon_buildblock/ProjectorByBinPairUsingProjMatrixByBin.h"
#include "stir/recon_buildblock/ProjMatrixElemsForOneBin.h"
#include "stir/recon_buildblock/BinNormalisationFromProjData.h"
#include "stir/recon_buildblock/TrivialBinNormalisation.h"
#include "stir/recon_buildblock/QuadraticPrior.h"
#include "stir/recon_buildblock/RelativeDifferencePrior.h"
#include "stir/recon_buildblock/GeneralisedPrior.h"
#include "stir/ProjDataInMemory.h"
#include "stir/ProjDataInterfile.h"
#include "stir/DataProcessor.h"
#include "stir/ChainedDataProcessor.h"
#include "stir/ThresholdMinToSmallPositiveValueDataProcessor.h"
#include "stir/SeparableGaussianImageFilter.h"
#include "stir/SeparableConvolutionImageFilter.h"
#include "stir/SeparableCartesianMetzImageFilter.h"
#include "stir/MedianImageFilter3D.h"
#include "stir/MinimalImageFilter3D.h"
#include "stir/TruncateToCylindricalFOVImageProcessor.h"
#include "stir/KeyParser.h"
#include "stir/RelatedViewgrams.h"
#include "stir/recon_array_functions.h"
#include "stir/DiscretisedDensity.h"
#include "stir/ViewSegmentNumbers.h"
#include "stir/Viewgram.h"
#include "stir/Bin.h"
#include "stir/ExamInfo.h"
#include "stir/Succeeded.h"
#include "stir/IO/read_from_file.h"
#include "stir/IO/write_to_file.h"
#include <boost/format.hpp>
#include <algorithm>
#include <cmath>
#include <cstring>
#include <limits>
#include <map>
#include <sys/stat.h>
#include <dirent.h>
#include <unistd.h>

using namespace stir;
typedef DiscretisedDensity<3, float> TargetT;
typedef PoissonLogLikelihoodWithLinearModelForMeanAndProjData<TargetT> ObjT;
typedef std::vector<float> Vec;

static FILE *g_ops, *g_out, *g_orc;
static long g_checks = 0, g_fails = 0;
static std::map<std::string, long> g_cov;
static std::string g_outdir = "/verif/build/out/c07";

static void
oracle_fail(const std::string& what)
{
  ++g_fails;
  if (g_fails <= 40)
    std::fprintf(g_orc, "ORACLE-FAIL %s\n", what.c_str());
}

// The one class of input on which the restart clause fails on the unchanged tree (see run_restart_witness): the resumed
// reconstruction has the configuration of the uninterrupted one, enforce_initial_positivity is on (the default), the
// image saved after sub-iteration k has exact zeros, set_up of the resumed run lifts them.  One KNOWN-CANDIDATE line per
// run (the key names the class); further occurrences are comments.
static void
known_restart_finding(const std::string& where)
{
  static int seen = 0;
  if (seen++ == 0)
    std::fprintf(g_orc,
                 "KNOWN-CANDIDATE restart:enforce-initial-positivity-lifts-exact-zeros resuming at sub-iteration k+1 "
                 "from the image saved after k, with the configuration of the uninterrupted run, does not reproduce that run when "
                 "image_k has exact zeros and enforce_initial_positivity is on (the default): set_up of the resumed run lifts the "
                 "zeros to 1e-6*min_positive while the uninterrupted run keeps them 0 [%s]\n",
                 where.c_str());
  else if (seen <= 6)
    std::fprintf(g_orc, "# also: %s\n", where.c_str());
}

// Second class of input on which a clause fails on the unchanged tree: TOF data, projector with view symmetries requested
// (the default), more than one subset, subset sensitivities: the sensitivity is back projected with a NON-TOF clone of the
// projector, which keeps the view symmetries that the TOF projector drops, so "subset i" of the sensitivity is the set of
// views RELATED to the basic views = i (mod n), not the views = i (mod n) of the data.
static void
known_tof_sens_finding(const std::string& where)
{
  static int seen = 0;
  if (seen++ == 0)
    std::fprintf(g_orc,
                 "KNOWN-CANDIDATE em-formula:tof-subset-sensitivity-by-symmetries-of-non-tof-projector TOF data, more than one "
                 "subset, projector with view symmetries requested: the update divides A_S^T[y/(A_S lambda+a)] of the data subset S "
                 "(views = i mod n; the TOF projector has no view symmetries) by the sensitivity of ANOTHER set of views (those "
                 "related by the symmetries of the non-TOF sensitivity projector to its basic views = i mod n), e.g. 0 for a subset "
                 "without basic views (images become inf) [%s]\n",
                 where.c_str());
  else if (seen <= 6)
    std::fprintf(g_orc, "# also: %s\n", where.c_str());
}

// Third class: TOF data, view symmetries requested, image wider than the field of view of the non-TOF projector WITH its view
// symmetries: some edge voxels are seen by the TOF matrix (numerator; no view symmetries) but by no bin of the non-TOF matrix
// with view symmetries (STIR's default sensitivity): s = 0, numerator > 0, the voxel becomes inf - also with ONE subset.
static void
known_tof_zero_sens_finding(const std::string& where)
{
  static int seen = 0;
  if (seen++ == 0)
    std::fprintf(g_orc,
                 "KNOWN-CANDIDATE em-formula:tof-voxels-seen-by-tof-matrix-only-have-sensitivity-0 TOF data, projector with view "
                 "symmetries requested, default non-TOF sensitivity: voxels at the edge of the image that bins of the TOF matrix (no "
                 "view symmetries) see but no bin of the non-TOF matrix with view symmetries sees have sensitivity 0 and a positive "
                 "numerator A_S^T[y/(A_S lambda+a)]: the update makes them inf instead of lambda*numerator/s_S (any number of subsets, "
                 "1 included) [%s]\n",
                 where.c_str());
  else if (seen <= 6)
    std::fprintf(g_orc, "# also: %s\n", where.c_str());
}

static Vec
to_vec(const TargetT& im)
{
  return Vec(im.begin_all_const(), im.end_all_const());
}
static void
from_vec(TargetT& im, const Vec& v)
{
  std::copy(v.begin(), v.end(), im.begin_all());
}
static bool
bitwise_equal(const Vec& a, const Vec& b)
{
  return a.size() == b.size() && (a.empty() || std::memcmp(a.data(), b.data(), a.size() * sizeof(float)) == 0);
}
static void
put_vec(FILE* f, const Vec& v)
{
  for (std::size_t i = 0; i < v.size(); ++i)
    std::fprintf(f, "%s%a", i ? " " : "", static_cast<double>(v[i]));
}

// ------------------------------------------------------------------------------------------------ problem
struct Geo
{
  int N, R, symflags;
  shared_ptr<Scanner> scanner;
  shared_ptr<ProjDataInfo> pdi;
  shared_ptr<TargetT> tmpl;
  int nvox, nx, ny, nz, minx, miny, minz;
  std::vector<Bin> bins;
  std::vector<std::vector<std::pair<int, float>>> rows; // explicit system matrix, one row per bin
  std::vector<int> basic_view;                            // view number of the basic (view, segment) of each bin
  std::size_t max_row = 0, max_col = 0;
  int span = 1, mash = 1, tofbins = 0, views = 0;
  bool tof = false;
  // the sensitivity of TOF data is computed with a NON-TOF projector (use_tofsens = false, the default): its bins / rows.
  // For non-TOF data these are the bins / rows above.
  std::vector<Bin> sbins;
  std::vector<std::vector<std::pair<int, float>>> srows;
  std::vector<int> sbasic_view;
  std::vector<int> sbasic_view_sym; // TOF: basic view by the symmetries of the NON-TOF projector (what STIR's sensitivity uses)
};

static shared_ptr<ProjMatrixByBinUsingRayTracing>
make_pm(int flags)
{
  shared_ptr<ProjMatrixByBinUsingRayTracing> pm(new ProjMatrixByBinUsingRayTracing);
  pm->set_do_symmetry_90degrees_min_phi((flags & 1) != 0);
  pm->set_do_symmetry_180degrees_min_phi((flags & 2) != 0);
  pm->set_do_symmetry_swap_segment((flags & 4) != 0);
  return pm;
}

// rows of the explicit system matrix for every bin of `pdi` (order: segment, view, TOF bin, axial, tangential)
static void
explicit_rows(Geo& g, const shared_ptr<ProjDataInfo>& pdi, std::vector<Bin>& bins,
              std::vector<std::vector<std::pair<int, float>>>& rows, std::vector<int>& basic_view, bool count)
{
  shared_ptr<ProjMatrixByBinUsingRayTracing> pm = make_pm(g.symflags);
  pm->set_up(pdi, g.tmpl);
  const DataSymmetriesForViewSegmentNumbers* sym = pm->get_symmetries_ptr();
  std::vector<std::size_t> col(g.nvox, 0);
  for (int seg = pdi->get_min_segment_num(); seg <= pdi->get_max_segment_num(); ++seg)
    for (int view = pdi->get_min_view_num(); view <= pdi->get_max_view_num(); ++view)
      {
        ViewSegmentNumbers vs(view, seg);
        sym->find_basic_view_segment_numbers(vs);
        for (int tpos = pdi->get_min_tof_pos_num(); tpos <= pdi->get_max_tof_pos_num(); ++tpos)
          for (int ax = pdi->get_min_axial_pos_num(seg); ax <= pdi->get_max_axial_pos_num(seg); ++ax)
            for (int tang = pdi->get_min_tangential_pos_num(); tang <= pdi->get_max_tangential_pos_num(); ++tang)
              {
                Bin bin(seg, view, ax, tang, tpos);
                ProjMatrixElemsForOneBin elems;
                pm->get_proj_matrix_elems_for_one_bin(elems, bin);
                std::vector<std::pair<int, float>> row;
                for (ProjMatrixElemsForOneBin::const_iterator it = elems.begin(); it != elems.end(); ++it)
                  {
                    const int z = it->coord1() - g.minz, y = it->coord2() - g.miny, x = it->coord3() - g.minx;
                    if (z < 0 || z >= g.nz || y < 0 || y >= g.ny || x < 0 || x >= g.nx)
                      continue;
                    const int j = (z * g.ny + y) * g.nx + x;
                    row.push_back(std::make_pair(j, it->get_value()));
                    ++col[j];
                  }
                if (count)
                  g.max_row = std::max(g.max_row, row.size());
                bins.push_back(bin);
                rows.push_back(row);
                basic_view.push_back(vs.view_num());
              }
      }
  for (std::size_t c : col)
    g.max_col = std::max(g.max_col, c);
}

// span 1 or 3, view mashing factor `mash`, `tofbins` > 0: time-of-flight data: a scanner with 15 TOF bins of 100 ps (timing
// resolution 400 ps: the bins cover the kernel over the whole image, as on real scanners), mashed to `tofbins` (3 or 5) bins
static Geo
make_geo(int N, int R, int nxy, int symflags, int span = 1, int mash = 1, int tofbins = 0)
{
  Geo g;
  g.N = N;
  g.R = R;
  g.symflags = symflags;
  g.span = span;
  g.mash = mash;
  g.tofbins = tofbins;
  g.tof = tofbins > 0;
  g.views = N / 2 / mash;
  g.scanner = vh::make_scanner(N, R, tofbins > 0 ? 15 : -1);
  g.pdi = vh::make_pdi(g.scanner, span, span == 1 ? R - 1 : 2, g.views, N / 2 - 1, false, tofbins > 0 ? 15 / tofbins : 0);
  g.tmpl = vh::make_image(*g.pdi, 1.F, nxy, 2 * R - 1);
  {
    shared_ptr<ExamInfo> ei(new ExamInfo);
    ei->imaging_modality = ImagingModality::PT;
    g.tmpl->set_exam_info(*ei);
  }
  g.minz = g.tmpl->get_min_index();
  g.nz = g.tmpl->get_length();
  g.miny = (*g.tmpl)[g.minz].get_min_index();
  g.ny = (*g.tmpl)[g.minz].get_length();
  g.minx = (*g.tmpl)[g.minz][g.miny].get_min_index();
  g.nx = (*g.tmpl)[g.minz][g.miny].get_length();
  g.nvox = g.nx * g.ny * g.nz;
  explicit_rows(g, g.pdi, g.bins, g.rows, g.basic_view, true);
  if (g.tof)
    {
      shared_ptr<ProjDataInfo> nontof = g.pdi->create_non_tof_clone();
      explicit_rows(g, nontof, g.sbins, g.srows, g.sbasic_view, true);
      // the subset S of the property's formula is the subset of the DATA (TOF projector: view symmetries are switched off,
      // so the basic view of a bin is its view); s_S must be the sensitivity of the same S
      g.sbasic_view_sym = g.sbasic_view;
      for (std::size_t b = 0; b < g.sbins.size(); ++b)
        g.sbasic_view[b] = g.sbins[b].view_num();
      { // information for the evidence file: voxels that the TOF matrix sees (numerator) but the non-TOF matrix, which STIR's
        // default sensitivity is made with, does not (sensitivity 0): there a plain EM update is non-zero / 0
        std::vector<double> ct(g.nvox, 0.), cn(g.nvox, 0.);
        for (auto& row : g.rows)
          for (auto& el : row)
            ct[el.first] += el.second;
        for (auto& row : g.srows)
          for (auto& el : row)
            cn[el.first] += el.second;
        long only_tof = 0;
        for (int j = 0; j < g.nvox; ++j)
          only_tof += ct[j] > 0 && cn[j] == 0;
        g_cov["tof_geometry_voxels_seen_by_tof_matrix_only"] += only_tof;
        if (only_tof)
          g_cov["tof_geometries_with_voxels_seen_by_tof_matrix_only"]++;
      }
    }
  else
    {
      g.sbins = g.bins;
      g.srows = g.rows;
      g.sbasic_view = g.basic_view;
      g.sbasic_view_sym = g.basic_view;
    }
  return g;
}

struct Data
{
  std::vector<double> y, add, eff; // per bin: counts, additive term (STIR convention: inside the brackets), efficiency
  std::vector<double> normf;       // per bin: normalisation factor (1 without normalisation); eff = 1 / normf
  bool has_add, has_norm;
  shared_ptr<ProjDataInMemory> y_pd, add_pd, norm_pd;
  mutable std::string file_prefix; // Interfile copies of the projection data (parameter-file path), written on first use
};

static shared_ptr<ProjDataInMemory>
make_pd(const Geo& g, const std::vector<double>& vals)
{
  shared_ptr<ExamInfo> ei(new ExamInfo);
  ei->imaging_modality = ImagingModality::PT;
  shared_ptr<ProjDataInMemory> pd(new ProjDataInMemory(ei, g.pdi));
  std::size_t b = 0;
  for (int seg = g.pdi->get_min_segment_num(); seg <= g.pdi->get_max_segment_num(); ++seg)
    for (int view = g.pdi->get_min_view_num(); view <= g.pdi->get_max_view_num(); ++view)
      {
        for (int tpos = g.pdi->get_min_tof_pos_num(); tpos <= g.pdi->get_max_tof_pos_num(); ++tpos)
          {
            Viewgram<float> v = pd->get_empty_viewgram(view, seg, false, tpos);
            for (int ax = g.pdi->get_min_axial_pos_num(seg); ax <= g.pdi->get_max_axial_pos_num(seg); ++ax)
              for (int tang = g.pdi->get_min_tangential_pos_num(); tang <= g.pdi->get_max_tangential_pos_num(); ++tang)
                v[ax][tang] = static_cast<float>(vals[b++]);
            pd->set_viewgram(v);
          }
      }
  return pd;
}

static int
poisson(vh::Rng& rng, double mean)
{
  if (mean <= 0)
    return 0;
  if (mean > 60)
    { // normal approximation, good enough as "Poisson-like"
      const double u1 = std::max(rng.unit(), 1e-12), u2 = rng.unit();
      const double z = std::sqrt(-2 * std::log(u1)) * std::cos(6.283185307179586 * u2);
      return std::max(0, static_cast<int>(std::lround(mean + std::sqrt(mean) * z)));
    }
  const double L = std::exp(-mean);
  int k = 0;
  double p = 1;
  do
    {
      ++k;
      p *= rng.unit();
  } while (p > L);
  return k - 1;
}

static Data
make_data(const Geo& g, vh::Rng& rng, bool has_add, bool has_norm, double level, bool sparse)
{
  Data d;
  d.has_add = has_add;
  d.has_norm = has_norm;
  const std::size_t nb = g.bins.size();
  std::vector<double> truth(g.nvox);
  for (int j = 0; j < g.nvox; ++j)
    {
      truth[j] = sparse ? 0. : 0.5 + 1.5 * rng.unit();
      if (rng.range(0, sparse ? 5 : 9) == 0)
        truth[j] = 4 + 4 * rng.unit();
      if (!sparse && rng.range(0, 11) == 0)
        truth[j] = 0;
    }
  d.y.resize(nb);
  d.add.assign(nb, 0.);
  d.eff.assign(nb, 1.);
  std::vector<double> normf(nb, 1.);
  for (std::size_t b = 0; b < nb; ++b)
    {
      if (has_add) // a float value, so that the oracle's double copy is what STIR reads
        d.add[b] = static_cast<float>((0.05 + 0.6 * rng.unit()));
      if (has_norm)
        {
          normf[b] = static_cast<float>(0.5 + 1.5 * rng.unit());
          d.eff[b] = 1. / normf[b];
        }
      double fwd = 0;
      for (auto& e : g.rows[b])
        fwd += e.second * truth[e.first];
      d.y[b] = poisson(rng, level * d.eff[b] * (fwd + (has_add ? d.add[b] / 4 : 0.)));
    }
  d.normf = normf;
  d.y_pd = make_pd(g, d.y);
  if (has_add)
    d.add_pd = make_pd(g, d.add);
  if (has_norm)
    d.norm_pd = make_pd(g, normf);
  return d;
}

// ------------------------------------------------------------------------------------------------ explicit system for the model
// `mat`: the explicit system matrix of the geometry (rows from the real ProjMatrixByBin, basic view from its symmetries, axial
// range of the segment) and `dat`: counts, additive term, normalisation factors per bin: the Lean model (`emExplicit`) forms
// numerator and sensitivity of the EM update from them itself (non-TOF geometries: one matrix for both)
static void
put_mat(const Geo& g)
{
  std::fprintf(g_ops, "mat %d %zu", g.nvox, g.bins.size());
  for (std::size_t b = 0; b < g.bins.size(); ++b)
    {
      const int seg = g.bins[b].segment_num();
      std::fprintf(g_ops, " R %d %d %d %d %d %zu", seg, g.basic_view[b], g.bins[b].axial_pos_num(), g.pdi->get_min_axial_pos_num(seg),
                   g.pdi->get_max_axial_pos_num(seg), g.rows[b].size());
      for (auto& el : g.rows[b])
        std::fprintf(g_ops, " %d %a", el.first, static_cast<double>(el.second));
    }
  std::fprintf(g_ops, "\n");
  std::fprintf(g_out, "ok\n");
}

static void
put_dat(const Geo& g, const Data& d)
{
  auto put = [&](const char* tag, const std::vector<double>& v) {
    std::fprintf(g_ops, " %s", tag);
    for (double x : v)
      std::fprintf(g_ops, " %a", x);
  };
  std::fprintf(g_ops, "dat %zu", g.bins.size());
  put("Y", d.y);
  put("A", d.add);
  put("N", d.normf);
  std::fprintf(g_ops, "\n");
  std::fprintf(g_out, "ok\n");
}

// ------------------------------------------------------------------------------------------------ harness-defined filter
// A data processor of the user: 1-2-1 smoothing along the fastest index minus a constant, so that its output has
// non-positive values and the positivity thresholding that OSMAPOSL chains behind it matters.  It records what it is given
// and what it returns (observation at the DataProcessor interface).
class LogFilter : public DataProcessor<TargetT>
{
public:
  explicit LogFilter(float shift_v, const IterativeReconstruction<TargetT>* owner_v = nullptr) : shift(shift_v), owner(owner_v) {}
  std::string get_registered_name() const override { return "verif log filter"; }
  mutable std::vector<Vec> inputs, outputs;
  mutable std::vector<int> at; // sub-iteration number of the owning reconstruction at each call
  float shift;
  const IterativeReconstruction<TargetT>* owner;
  Vec compute(const Vec& in) const
  {
    Vec out(in.size());
    const std::size_t n = in.size();
    for (std::size_t i = 0; i < n; ++i)
      {
        const float l = in[i == 0 ? i : i - 1], r = in[i + 1 == n ? i : i + 1];
        out[i] = 0.5F * in[i] + 0.25F * (l + r) - shift;
      }
    return out;
  }

protected:
  Succeeded virtual_set_up(const TargetT&) override { return Succeeded::yes; }
  void virtual_apply(TargetT& data) const override
  {
    Vec in = to_vec(data);
    inputs.push_back(in);
    at.push_back(owner ? owner->get_subiteration_num() : -1);
    Vec out = compute(in);
    outputs.push_back(out);
    from_vec(data, out);
  }
  void virtual_apply(TargetT& out_data, const TargetT& in_data) const override
  {
    out_data = in_data;
    virtual_apply(out_data);
  }
};

// ------------------------------------------------------------------------------------------------ user filter objects
// What a user can put into a filter slot of OSMAPOSL: any registered data processor, in particular a ChainedDataProcessor
// ("Chained Data Processor") of his own, nested at will.  A description (FSpec) is turned into real STIR objects either through
// constructors / setters or by parsing the text that a parameter file would hold for it.
struct FSpec
{
  // 0 Separable Gaussian (p = FWHM in mm, x and y), 1 Separable Convolution, sharpening kernel [-p 1+2p -p] in x and y,
  // 2 Separable Cartesian Metz (p = FWHM in mm, power 2: negative lobes), 3 Median (radius 1 in x and y),
  // 4 Truncate To Cylindrical FOV (zeros outside), 5 the harness-defined LogFilter (p = shift; cannot be parsed),
  // 6 Threshold Min To Small Positive Value, 7 Chained Data Processor (kids[0], kids[1]), 8 a null pointer,
  // 9 Minimal (radius 1 in x and y)
  int kind = 8;
  float p = 0.F;
  std::vector<FSpec> kids;
  bool is_null() const { return kind == 8; }
  bool is_leaf() const { return kind <= 5 || kind == 9; }
  static FSpec leaf(int kind, float p = 0.F)
  {
    FSpec f;
    f.kind = kind;
    f.p = p;
    return f;
  }
  static FSpec chain(const FSpec& a, const FSpec& b)
  {
    FSpec f;
    f.kind = 7;
    f.kids.push_back(a);
    f.kids.push_back(b);
    return f;
  }
  bool parseable() const
  {
    if (kind == 5)
      return false;
    for (auto& k : kids)
      if (!k.parseable())
        return false;
    return true;
  }
  int leaves() const
  {
    int n = is_leaf() ? 1 : 0;
    for (auto& k : kids)
      n += k.leaves();
    return n;
  }
  int members() const // data processors that do something
  {
    int n = (is_leaf() || kind == 6) ? 1 : 0;
    for (auto& k : kids)
      n += k.members();
    return n;
  }
  bool has_chain() const { return kind == 7; }
  // prefix notation for the Lean model: u = user filter (leaf), t = thresholding, c X Y = chain, n = null
  std::string descr() const
  {
    if (kind == 7)
      return "c " + kids[0].descr() + " " + kids[1].descr();
    return kind == 8 ? "n" : (kind == 6 ? "t" : "u");
  }
  std::string name() const
  {
    static const char* const names[] = { "Gaussian", "sharpen", "Metz", "median", "truncate", "logfilter", "threshold", "chain", "null", "minimal" };
    if (kind == 7)
      return "chain(" + kids[0].name() + "," + kids[1].name() + ")";
    return names[kind];
  }
};

static std::string
fmt_float9(float x)
{
  char buf[64];
  std::snprintf(buf, sizeof buf, "%.9g", static_cast<double>(x));
  return buf;
}

// the text a parameter file holds after `<some> filter type := ` for this object (registered name, then its parameter block)
static std::string
filter_text(const FSpec& f)
{
  switch (f.kind)
    {
    case 0:
      return "Separable Gaussian\nSeparable Gaussian Filter Parameters :=\nx-dir filter FWHM (in mm) := " + fmt_float9(f.p)
             + "\ny-dir filter FWHM (in mm) := " + fmt_float9(f.p) + "\nz-dir filter FWHM (in mm) := 0\nEND Separable Gaussian Filter Parameters :=\n";
    case 1:
      {
        const std::string k = "{" + fmt_float9(-f.p) + ", " + fmt_float9(1.F + 2.F * f.p) + ", " + fmt_float9(-f.p) + "}";
        return "Separable Convolution\nSeparable Convolution Filter Parameters :=\nx-dir filter coefficients := " + k
               + "\ny-dir filter coefficients := " + k + "\nz-dir filter coefficients := {1}\nEND Separable Convolution Filter Parameters :=\n";
      }
    case 2:
      return "Separable Cartesian Metz\nSeparable Cartesian Metz Filter Parameters :=\nx-dir filter FWHM (in mm) := " + fmt_float9(f.p)
             + "\ny-dir filter FWHM (in mm) := " + fmt_float9(f.p)
             + "\nz-dir filter FWHM (in mm) := 0\nx-dir filter Metz power := 2\ny-dir filter Metz power := 2\nz-dir filter Metz power := 0\n"
               "END Separable Cartesian Metz Filter Parameters :=\n";
    case 3:
      return "Median\nMedian Filter Parameters :=\nmask radius x := 1\nmask radius y := 1\nmask radius z := 0\nEND Median Filter Parameters :=\n";
    case 9:
      return "Minimal\nMinimal Filter Parameters :=\nmask radius x := 1\nmask radius y := 1\nmask radius z := 0\nEND Minimal Filter Parameters :=\n";
    case 4:
      return "Truncate To Cylindrical FOV\nTruncate To Cylindrical FOV Parameters :=\nEND Truncate To Cylindrical FOV Parameters :=\n";
    case 6:
      return "Threshold Min To Small Positive Value\nThreshold Min To Small Positive Value Parameters :=\n"
             "END Threshold Min To Small Positive Value Parameters :=\n";
    case 7:
      {
        std::string t = "Chained Data Processor\nChained Data Processor Parameters :=\n";
        if (!f.kids[0].is_null())
          t += "Data Processor to apply first := " + filter_text(f.kids[0]);
        if (!f.kids[1].is_null())
          t += "Data Processor to apply second := " + filter_text(f.kids[1]);
        return t + "END Chained Data Processor Parameters :=\n";
      }
    default:
      throw std::runtime_error("HARNESS: this filter cannot be written to a parameter file");
    }
}

static shared_ptr<DataProcessor<TargetT>>
parse_filter(const std::string& text)
{
  shared_ptr<DataProcessor<TargetT>> ptr;
  KeyParser kp;
  kp.add_start_key("verif filter parameters");
  kp.add_parsing_key("filter type", &ptr);
  kp.add_stop_key("END verif filter parameters");
  std::istringstream is("verif filter parameters :=\nfilter type := " + text + "END verif filter parameters :=\n");
  if (!kp.parse(is) || is_null_ptr(ptr))
    throw std::runtime_error("HARNESS: filter text did not parse");
  return ptr;
}

// the real objects: `from_text`: as a parameter file makes them (registry + parsing); otherwise constructors / setters
// (the Metz filter has no setters: parsed in both cases)
static shared_ptr<DataProcessor<TargetT>>
make_filter(const FSpec& f, bool from_text)
{
  typedef shared_ptr<DataProcessor<TargetT>> P;
  if (f.is_null())
    return P();
  if (from_text)
    return parse_filter(filter_text(f));
  switch (f.kind)
    {
    case 0:
      {
        shared_ptr<SeparableGaussianImageFilter<float>> gf(new SeparableGaussianImageFilter<float>);
        gf->set_fwhms(make_coordinate(0.F, f.p, f.p));
        return gf;
      }
    case 1:
      {
        VectorWithOffset<float> k1(0, 0);
        k1[0] = 1.F;
        VectorWithOffset<float> k3(-1, 1);
        k3[-1] = -f.p;
        k3[0] = 1.F + 2.F * f.p;
        k3[1] = -f.p;
        VectorWithOffset<VectorWithOffset<float>> coeffs(1, 3);
        coeffs[1] = k1;
        coeffs[2] = k3;
        coeffs[3] = k3;
        return P(new SeparableConvolutionImageFilter<float>(coeffs));
      }
    case 2:
      return parse_filter(filter_text(f));
    case 3:
      return P(new MedianImageFilter3D<float>(CartesianCoordinate3D<int>(0, 1, 1)));
    case 9:
      return P(new MinimalImageFilter3D<float>(CartesianCoordinate3D<int>(0, 1, 1)));
    case 4:
      return P(new TruncateToCylindricalFOVImageProcessor<float>);
    case 5:
      return P(new LogFilter(f.p));
    case 6:
      return P(new ThresholdMinToSmallPositiveValueDataProcessor<TargetT>);
    default:
      return P(new ChainedDataProcessor<TargetT>(make_filter(f.kids[0], false), make_filter(f.kids[1], false)));
    }
}

// the members of the described object applied ONE BY ONE, each as a fresh object of its own (in place, as OSMAPOSL applies its
// filters): what every user filter (leaf) returned is the data of the Lean model, which chains them itself
static void
walk_filter(const FSpec& f, bool from_text, TargetT& img, std::vector<Vec>& leaf_outputs)
{
  if (f.is_null())
    return;
  if (f.kind == 7)
    {
      walk_filter(f.kids[0], from_text, img, leaf_outputs);
      walk_filter(f.kids[1], from_text, img, leaf_outputs);
      return;
    }
  if (make_filter(f, from_text)->apply(img) != Succeeded::yes)
    throw std::runtime_error("HARNESS: a member filter could not be applied");
  if (f.is_leaf())
    leaf_outputs.push_back(to_vec(img));
}

static FSpec
random_leaf(vh::Rng& rng, int cls, bool allow_log) // cls 0: smoothing, 1: output with negative values, 2: any
{
  if (cls == 2)
    cls = rng.range(0, 2) == 0 ? 0 : 1;
  if (cls == 0)
    {
      const int k = rng.range(0, 4);
      if (k == 0)
        return FSpec::leaf(3);
      if (k == 1)
        return FSpec::leaf(4);
      if (k == 4)
        return FSpec::leaf(9);
      return FSpec::leaf(0, static_cast<float>(2.5 + 3 * rng.unit()));
    }
  const int k = rng.range(0, allow_log ? 3 : 2);
  if (k == 2)
    return FSpec::leaf(2, static_cast<float>(3. + 3 * rng.unit()));
  if (k == 3)
    return FSpec::leaf(5, static_cast<float>(0.05 + 0.3 * rng.unit()));
  return FSpec::leaf(1, static_cast<float>(0.2 + 0.25 * rng.unit())); // [-0.3 1.6 -0.3] and the like
}

// what a user puts into a slot: single filters and chains of 2 and 3 members, smoothing + sharpening in both orders, chains that
// hold a thresholding already, nested chains, chains with a null member
static FSpec
random_slot(vh::Rng& rng, bool allow_log)
{
  const FSpec thr = FSpec::leaf(6), null = FSpec::leaf(8);
  auto smooth = [&]() { return random_leaf(rng, 0, allow_log); };
  auto sharp = [&]() { return random_leaf(rng, 1, allow_log); };
  auto any = [&]() { return random_leaf(rng, 2, allow_log); };
  switch (rng.range(0, 13))
    {
    case 0:
      return any();
    case 1:
    case 2:
      return FSpec::chain(smooth(), sharp());
    case 3:
      return FSpec::chain(sharp(), smooth());
    case 4:
      return FSpec::chain(sharp(), thr);
    case 5:
      return FSpec::chain(thr, sharp());
    case 6:
      return FSpec::chain(FSpec::chain(smooth(), any()), sharp());
    case 7:
      return FSpec::chain(smooth(), FSpec::chain(any(), sharp()));
    case 8:
      return rng.coin() ? FSpec::chain(sharp(), null) : FSpec::chain(null, sharp());
    case 9:
      return FSpec::chain(FSpec::chain(sharp(), thr), FSpec::chain(smooth(), sharp()));
    case 10:
      return FSpec::chain(sharp(), sharp());
    case 11:
      return FSpec::chain(FSpec::chain(any(), sharp()), thr);
    case 12:
      return thr;
    default:
      return sharp();
    }
}

// ------------------------------------------------------------------------------------------------ configuration
struct RunCfg
{
  int nsub = 1, start_subset = 0, N = 1;
  int prior = 0;        // 0 none, 1 quadratic, 2 RDP, 3 quadratic with penalisation factor 0 (= no prior)
  int map = 1;          // 1 additive, 2 multiplicative
  float beta = 0.F;
  bool use_subset_sens = true, enforce = true;
  bool clamps = false;
  double minrel = 0., maxrel = std::numeric_limits<float>::max();
  int iuf = 0, iif = 0;
  float iuf_shift = 0.F, iif_shift = 0.F;
  int max_seg = -1;
  int save_interval = 1;
  bool post = false; // a post-filter (Reconstruction::set_post_processor_sptr)
  float post_shift = 0.F;
  bool zero_end = false; // `zero end planes of segment 0` (set_zero_seg0_end_planes)
  // filter stream: the user's filter objects by description (instead of the LogFilter of iuf_shift / iif_shift / post_shift);
  // `filters_from_text`: made as a parameter file makes them
  shared_ptr<FSpec> fu_spec, fi_spec, fp_spec;
  bool filters_from_text = false;
  // sensitivity files: 0 none (computed, not written); 1 `recompute sensitivity := 1` + file name(s): computed and WRITTEN;
  // 2 `recompute sensitivity := 0` + file name(s): READ from the files
  int sens_mode = 0;
  std::string sens_prefix;
  std::string sens_filename() const { return sens_prefix + "_sens.hv"; }
  std::string subsens_pattern() const { return sens_prefix + "_subsens_%d.hv"; }
  bool prior_active() const { return prior == 1 || prior == 2; }
  int map_code() const { return prior_active() ? map : 0; }
};

struct Objects
{
  shared_ptr<ObjT> obj;
  shared_ptr<OSMAPOSLReconstruction<TargetT>> recon;
  shared_ptr<LogFilter> fu, fi, fp;
};

static shared_ptr<ObjT>
make_obj(const Geo& g, const Data& d, const RunCfg& c)
{
  shared_ptr<ObjT> obj(new ObjT);
  obj->set_proj_data_sptr(d.y_pd);
  shared_ptr<ProjectorByBinPair> pair(new ProjectorByBinPairUsingProjMatrixByBin(make_pm(g.symflags)));
  obj->set_projector_pair_sptr(pair);
  if (d.has_add)
    obj->set_additive_proj_data_sptr(d.add_pd);
  if (d.has_norm)
    obj->set_normalisation_sptr(shared_ptr<BinNormalisation>(new BinNormalisationFromProjData(d.norm_pd)));
  obj->set_use_subset_sensitivities(c.use_subset_sens);
  obj->set_zero_seg0_end_planes(c.zero_end);
  if (c.sens_mode != 0)
    {
      obj->set_recompute_sensitivity(c.sens_mode == 1);
      if (c.use_subset_sens)
        obj->set_subsensitivity_filenames(c.subsens_pattern());
      else
        obj->set_sensitivity_filename(c.sens_filename());
    }
  if (c.max_seg >= 0)
    obj->set_max_segment_num_to_process(c.max_seg);
  if (c.prior == 1 || c.prior == 3)
    obj->set_prior_sptr(shared_ptr<GeneralisedPrior<TargetT>>(new QuadraticPrior<float>(false, c.prior == 3 ? 0.F : c.beta)));
  else if (c.prior == 2)
    obj->set_prior_sptr(shared_ptr<GeneralisedPrior<TargetT>>(new RelativeDifferencePrior<float>(false, c.beta, 2.F, 0.01F)));
  return obj;
}

// the user's data processors (harness-defined, so they cannot come from a parameter file: set through the setters)
template <class ReconT>
static void
configure_filters(ReconT& r, const RunCfg& c, Objects& o)
{
  if (c.fu_spec || c.fi_spec || c.fp_spec)
    { // filter stream: real (registered) data processors, user chains
      if (c.fu_spec)
        {
          r.set_inter_update_filter_interval(c.iuf);
          r.set_inter_update_filter_ptr(make_filter(*c.fu_spec, c.filters_from_text));
        }
      if (c.fi_spec)
        {
          r.set_inter_iteration_filter_interval(c.iif);
          r.set_inter_iteration_filter_ptr(make_filter(*c.fi_spec, c.filters_from_text));
        }
      if (c.fp_spec)
        r.set_post_processor_sptr(make_filter(*c.fp_spec, c.filters_from_text));
      return;
    }
  if (c.iuf > 0)
    {
      o.fu.reset(new LogFilter(c.iuf_shift, &r));
      r.set_inter_update_filter_interval(c.iuf);
      r.set_inter_update_filter_ptr(o.fu);
    }
  if (c.iif > 0)
    {
      o.fi.reset(new LogFilter(c.iif_shift, &r));
      r.set_inter_iteration_filter_interval(c.iif);
      r.set_inter_iteration_filter_ptr(o.fi);
    }
  if (c.post)
    {
      o.fp.reset(new LogFilter(c.post_shift, &r));
      r.set_post_processor_sptr(o.fp);
    }
}

template <class ReconT>
static void
configure_recon(ReconT& r, const shared_ptr<ObjT>& obj, const RunCfg& c, Objects& o, int start, int last, const std::string& prefix)
{
  r.set_objective_function_sptr(obj);
  r.set_num_subsets(c.nsub);
  r.set_start_subset_num(c.start_subset);
  r.set_num_subiterations(last);
  r.set_start_subiteration_num(start);
  r.set_save_interval(std::min(c.save_interval, last));
  r.set_enforce_initial_positivity(c.enforce);
  if (c.prior_active())
    r.set_MAP_model(c.map == 1 ? "additive" : "multiplicative");
  if (c.clamps)
    {
      r.set_maximum_relative_change(c.maxrel);
      r.set_minimum_relative_change(c.minrel);
    }
  configure_filters(r, c, o);
  if (prefix.empty())
    r.set_disable_output(true);
  else
    r.set_output_filename_prefix(prefix);
}

static Objects
build(const Geo& g, const Data& d, const RunCfg& c, int start, int last, const std::string& prefix)
{
  Objects o;
  o.obj = make_obj(g, d, c);
  o.recon.reset(new OSMAPOSLReconstruction<TargetT>);
  configure_recon(*o.recon, o.obj, c, o, start, last, prefix);
  return o;
}

static int
expected_subset(const RunCfg& c, int k)
{
  return (k + c.start_subset - 1) % c.nsub;
}

static void
put_cfg(const char* stream, int nvox, const RunCfg& c)
{
  std::fprintf(g_ops, "cfg %s %d %d %d %d %a %a %d %d %d\n", stream, nvox, c.nsub, c.start_subset, c.map_code(),
               static_cast<double>(static_cast<float>(c.clamps ? c.minrel : 0.)),
               static_cast<double>(static_cast<float>(c.clamps ? c.maxrel : std::numeric_limits<float>::max())), c.iuf, c.iif,
               c.enforce ? 1 : 0);
  std::fprintf(g_out, "ok\n");
}

static bool
all_finite(const Vec& v)
{
  for (float x : v)
    if (!std::isfinite(x))
      return false;
  return true;
}

// NaN-aware tests (the libraries are built with -ffast-math, this harness is not): `x >= 0` is false for a NaN, so a NaN
// counts as "not non-negative"; std::min_element / `min < 0` would let it pass
static bool
all_nonneg(const Vec& v)
{
  for (float x : v)
    if (!(x >= 0))
      return false;
  return true;
}
static bool
all_positive(const Vec& v)
{
  for (float x : v)
    if (!(x > 0))
      return false;
  return true;
}
// largest element, NaN if there is one
static float
max_or_nan(const Vec& v)
{
  float m = -std::numeric_limits<float>::infinity();
  for (float x : v)
    {
      if (x != x)
        return x;
      m = std::max(m, x);
    }
  return m;
}
static std::string
first_not_nonneg(const Vec& v)
{
  long n = 0, first = -1;
  for (std::size_t j = 0; j < v.size(); ++j)
    if (!(v[j] >= 0))
      {
        ++n;
        if (first < 0)
          first = static_cast<long>(j);
      }
  return first < 0 ? std::string("none") : std::to_string(n) + " voxels negative or NaN, first: voxel " + std::to_string(first) + " = " + vh::hex(v[first]);
}

// one `upd` (+ optional `eoi`) operation from what was observed for sub-iteration k
static void
put_upd(int k, int subset, const Vec& before, const Vec& gps, const Vec& sens, const Vec* pg, const Vec* fu_out,
        const Vec& after_update, const Vec* fi_out, const Vec& final_image)
{
  std::fprintf(g_ops, "upd %d %d %d L ", k, subset, fi_out ? 1 : 0);
  put_vec(g_ops, before);
  std::fprintf(g_ops, " G ");
  put_vec(g_ops, gps);
  std::fprintf(g_ops, " S ");
  put_vec(g_ops, sens);
  if (pg)
    {
      std::fprintf(g_ops, " P ");
      put_vec(g_ops, *pg);
    }
  if (fu_out)
    {
      std::fprintf(g_ops, " F ");
      put_vec(g_ops, *fu_out);
    }
  std::fprintf(g_ops, "\n");
  put_vec(g_out, after_update);
  std::fprintf(g_out, "\n");
  if (fi_out && all_finite(after_update)) // (the model stops at a non-finite image)
    {
      std::fprintf(g_ops, "eoi %d L ", k);
      put_vec(g_ops, after_update);
      std::fprintf(g_ops, " F ");
      put_vec(g_ops, *fi_out);
      std::fprintf(g_ops, "\n");
      put_vec(g_out, final_image);
      std::fprintf(g_out, "\n");
    }
}

static bool
file_exists(const std::string& fname)
{
  struct stat st;
  return ::stat(fname.c_str(), &st) == 0;
}

static Vec
read_image(const std::string& fname)
{
  shared_ptr<TargetT> im(read_from_file<TargetT>(fname));
  return to_vec(*im);
}


// ------------------------------------------------------------------------------------------------ parameter files
// The path of the users: an OSMAPOSL parameter file (objective function, projector, prior, schedule, `initial estimate`,
// `start at subiteration number`) parsed by OSMAPOSLReconstruction(parameter_filename), then the no-argument reconstruct().
static void
ensure_files(const Geo& g, const Data& d)
{
  if (!d.file_prefix.empty())
    return;
  static int counter = 0;
  d.file_prefix = g_outdir + "/data" + std::to_string(counter++);
  auto write = [&](const ProjDataInMemory& pd, const std::string& name) {
    ProjDataInterfile out(pd.get_exam_info_sptr(), pd.get_proj_data_info_sptr(), name);
    out.fill(pd);
  };
  write(*d.y_pd, d.file_prefix + "_y.hs");
  if (d.has_add)
    write(*d.add_pd, d.file_prefix + "_add.hs");
  if (d.has_norm)
    write(*d.norm_pd, d.file_prefix + "_norm.hs");
}

static std::string
fmt_float(float x)
{
  char buf[64];
  std::snprintf(buf, sizeof buf, "%.9g", static_cast<double>(x));
  return buf;
}
static std::string
fmt_double(double x)
{
  char buf[64];
  std::snprintf(buf, sizeof buf, "%.17g", x);
  return buf;
}

// writes <prefix>.par; `initial` is "0", "1" or the name of an image file
static std::string
write_par(const Geo& g, const Data& d, const RunCfg& c, int start, int last, const std::string& prefix, const std::string& initial)
{
  ensure_files(g, d);
  const std::string fname = prefix + ".par";
  std::ofstream f(fname.c_str());
  f << "OSMAPOSLParameters :=\n"
    << "objective function type := PoissonLogLikelihoodWithLinearModelForMeanAndProjData\n"
    << "PoissonLogLikelihoodWithLinearModelForMeanAndProjData Parameters :=\n"
    << "  input file := " << d.file_prefix << "_y.hs\n"
    << "  maximum absolute segment number to process := " << c.max_seg << "\n"
    << "  zero end planes of segment 0 := " << (c.zero_end ? 1 : 0) << "\n"
    << "  projector pair type := Matrix\n"
    << "    Projector Pair Using Matrix Parameters :=\n"
    << "      Matrix type := Ray Tracing\n"
    << "        Ray Tracing Matrix Parameters :=\n"
    << "          do_symmetry_90degrees_min_phi := " << ((g.symflags & 1) ? 1 : 0) << "\n"
    << "          do_symmetry_180degrees_min_phi := " << ((g.symflags & 2) ? 1 : 0) << "\n"
    << "          do_symmetry_swap_segment := " << ((g.symflags & 4) ? 1 : 0) << "\n"
    << "        End Ray Tracing Matrix Parameters :=\n"
    << "    End Projector Pair Using Matrix Parameters :=\n";
  if (d.has_add)
    f << "  additive sinogram := " << d.file_prefix << "_add.hs\n";
  if (d.has_norm)
    f << "  Bin Normalisation type := From ProjData\n"
      << "    Bin Normalisation From ProjData :=\n"
      << "      normalisation_projdata_filename := " << d.file_prefix << "_norm.hs\n"
      << "    End Bin Normalisation From ProjData :=\n";
  if (c.prior == 1 || c.prior == 3)
    f << "  prior type := Quadratic\n"
      << "    Quadratic Prior Parameters :=\n"
      << "      penalisation factor := " << fmt_float(c.prior == 3 ? 0.F : c.beta) << "\n"
      << "      only 2D := 0\n"
      << "    END Quadratic Prior Parameters :=\n";
  else if (c.prior == 2)
    f << "  prior type := Relative Difference Prior\n"
      << "    Relative Difference Prior Parameters :=\n"
      << "      penalisation factor := " << fmt_float(c.beta) << "\n"
      << "      only 2D := 0\n"
      << "      gamma value := 2\n"
      << "      epsilon value := 0.01\n"
      << "    END Relative Difference Prior Parameters :=\n";
  if (c.sens_mode != 0)
    {
      f << "  recompute sensitivity := " << (c.sens_mode == 1 ? 1 : 0) << "\n";
      if (c.use_subset_sens)
        f << "  subset sensitivity filenames := " << c.subsens_pattern() << "\n";
      else
        f << "  sensitivity filename := " << c.sens_filename() << "\n";
    }
  f << "  use_subset_sensitivities := " << (c.use_subset_sens ? 1 : 0) << "\n"
    << "  zoom := 1\n"
    << "  XY output image size (in pixels) := " << g.nx << "\n"
    << "  Z output image size (in pixels) := " << g.nz << "\n"
    << "End PoissonLogLikelihoodWithLinearModelForMeanAndProjData Parameters :=\n"
    << "initial estimate := " << initial << "\n"
    << "output filename prefix := " << prefix << "\n"
    << "number of subsets := " << c.nsub << "\n"
    << "start at subset := " << c.start_subset << "\n"
    << "number of subiterations := " << last << "\n"
    << "start at subiteration number := " << start << "\n"
    << "save estimates at subiteration intervals := " << std::min(c.save_interval, last) << "\n"
    << "enforce initial positivity condition := " << (c.enforce ? 1 : 0) << "\n";
  if (c.prior_active())
    f << "MAP_model := " << (c.map == 1 ? "additive" : "multiplicative") << "\n";
  if (c.clamps)
    f << "maximum relative change := " << fmt_double(c.maxrel) << "\n"
      << "minimum relative change := " << fmt_double(c.minrel) << "\n";
  // filter stream: the user's filters as registered objects (`Chained Data Processor` and its members included)
  if (c.fu_spec)
    f << "inter-update filter subiteration interval := " << c.iuf << "\n"
      << "inter-update filter type := " << filter_text(*c.fu_spec);
  if (c.fi_spec)
    f << "inter-iteration filter subiteration interval := " << c.iif << "\n"
      << "inter-iteration filter type := " << filter_text(*c.fi_spec);
  if (c.fp_spec)
    f << "post-filter type := " << filter_text(*c.fp_spec);
  f << "End OSMAPOSLParameters :=\n";
  return fname;
}

// equality of two images that may hold NaN: same bits
static bool
same_files(const std::string& a, const std::string& b, bool& both_exist)
{
  const bool ea = file_exists(a), eb = file_exists(b);
  both_exist = ea && eb;
  if (ea != eb)
    return false;
  if (!ea)
    return true;
  return bitwise_equal(read_image(a), read_image(b));
}

// ------------------------------------------------------------------------------------------------ oracle pieces
struct Explicit
{ // textbook quantities from the explicit matrix, in double
  std::vector<double> gps, sens, ybar;
  std::vector<double> sens_tof; // TOF data: the sensitivity of the same subset from the TOF matrix (`use time-of-flight sensitivities`)
  bool regular = true;
  double total_counts = 0, ll = 0, ll_mag = 0;
};

// `zero end planes of segment 0`: the bins of the first and the last sinogram of segment 0 are not part of the system
// (neither of the numerator nor of the sensitivity nor of the log-likelihood)
static bool
end_plane_zeroed(const Geo& g, const RunCfg& c, const Bin& bin)
{
  return c.zero_end && bin.segment_num() == 0
         && (bin.axial_pos_num() == g.pdi->get_min_axial_pos_num(0) || bin.axial_pos_num() == g.pdi->get_max_axial_pos_num(0));
}

static bool
in_subset(const Geo& g, const RunCfg& c, std::size_t b, int subset, int max_seg)
{
  return std::abs(g.bins[b].segment_num()) <= max_seg && g.basic_view[b] % c.nsub == subset;
}

// `sens_by_sym`: (TOF only) the subset of the sensitivity by the view symmetries of the non-TOF projector instead of the
// subset of the data (see KNOWN-CANDIDATE em-formula:tof-subset-sensitivity-by-symmetries-of-non-tof-projector)
static Explicit
explicit_quantities(const Geo& g, const Data& d, const RunCfg& c, const Vec& lambda, int subset, bool sens_by_sym = false)
{
  Explicit e;
  const int max_seg = c.max_seg >= 0 ? c.max_seg : g.pdi->get_max_segment_num();
  e.gps.assign(g.nvox, 0.);
  e.sens.assign(g.nvox, 0.);
  e.sens_tof.assign(g.nvox, 0.);
  e.ybar.assign(g.bins.size(), 0.);
  // STIR's divide_and_truncate works per viewgram: threshold = max of the measured viewgram * 1e-6
  auto vkey = [&](const Bin& bin) { return (bin.segment_num() * 4096 + bin.view_num()) * 64 + bin.timing_pos_num(); };
  std::map<int, double> vmax;
  for (std::size_t b = 0; b < g.bins.size(); ++b)
    {
      const int key = vkey(g.bins[b]);
      vmax[key] = std::max(vmax.count(key) ? vmax[key] : 0., end_plane_zeroed(g, c, g.bins[b]) ? 0. : d.y[b]);
    }
  // total (all subsets) sensitivity / subset sensitivity: for TOF data from the non-TOF matrix (efficiencies 1 there)
  for (std::size_t b = 0; b < g.sbins.size(); ++b)
    {
      if (std::abs(g.sbins[b].segment_num()) > max_seg || end_plane_zeroed(g, c, g.sbins[b]))
        continue;
      const bool mine = (sens_by_sym ? g.sbasic_view_sym[b] : g.sbasic_view[b]) % c.nsub == subset;
      const double eff = g.tof ? 1. : d.eff[b];
      for (auto& el : g.srows[b])
        if (c.use_subset_sens ? mine : true)
          e.sens[el.first] += static_cast<double>(el.second) * eff / (c.use_subset_sens ? 1. : c.nsub);
    }
  for (std::size_t b = 0; b < g.bins.size(); ++b)
    {
      if (std::abs(g.bins[b].segment_num()) > max_seg || end_plane_zeroed(g, c, g.bins[b]))
        continue;
      const bool mine = in_subset(g, c, b, subset, max_seg);
      double fwd = 0;
      for (auto& el : g.rows[b])
        fwd += static_cast<double>(el.second) * lambda[el.first];
      const double ybar = fwd + d.add[b];
      e.ybar[b] = ybar;
      if (g.tof && (c.use_subset_sens ? mine : true))
        for (auto& el : g.rows[b])
          e.sens_tof[el.first] += static_cast<double>(el.second) * d.eff[b] / (c.use_subset_sens ? 1. : c.nsub);
      if (!mine)
        continue;
      e.total_counts += d.y[b];
      const double small = vmax[vkey(g.bins[b])] * 1e-6;
      if (d.y[b] > 0)
        {
          // regular region of divide_and_truncate: y > small and y <= 10^4 ybar  (then the quotient is y / ybar)
          if (!(d.y[b] > small * 1.001) || !(d.y[b] < 9999. * ybar))
            {
              e.regular = false;
              continue;
            }
          const double ratio = d.y[b] / ybar;
          for (auto& el : g.rows[b])
            e.gps[el.first] += static_cast<double>(el.second) * ratio;
          const double mean = d.eff[b] * ybar;
          e.ll += d.y[b] * std::log(mean) - mean;
          e.ll_mag += d.y[b] * (1 + std::fabs(std::log(mean))) + mean; // |d(y log m)| <= y |dm/m|: the y itself counts
        }
      else
        {
          const double mean = d.eff[b] * ybar;
          e.ll += -mean;
          e.ll_mag += std::fabs(mean);
        }
    }
  return e;
}

// the numbers of subsets the library accepts for this geometry (OSMAPOSL::set_up refuses unbalanced subsets)
static std::vector<int>
legal_subset_numbers(const Geo& g, const Data& d)
{
  std::vector<int> res;
  for (int n = 1; n <= g.views; ++n)
    {
      try
        {
          shared_ptr<ObjT> obj = make_obj(g, d, RunCfg());
          obj->get_projector_pair_sptr()->set_up(g.pdi, g.tmpl);
          obj->set_max_segment_num_to_process(g.pdi->get_max_segment_num());
          obj->set_num_subsets(n);
          if (obj->subsets_are_approximately_balanced())
            res.push_back(n);
        }
      catch (std::exception&)
        {}
    }
  return res;
}

// ------------------------------------------------------------------------------------------------ real stream, one case
static void
run_real_case(const std::string& name, const Geo& g, const Data& d, RunCfg c, vh::Rng& rng, bool do_restart,
              const std::vector<int>& legal, bool do_side_branches)
{
  const float eps = std::ldexp(1.F, -24);
  // start image: positive, sometimes with zeros / negatives (set_up's positivity step)
  Vec start(g.nvox);
  const int zero_style = rng.range(0, 3); // 0,1: strictly positive; 2: some zeros; 3: zeros and negatives
  for (int j = 0; j < g.nvox; ++j)
    {
      start[j] = static_cast<float>(0.25 + 2 * rng.unit());
      if (zero_style >= 2 && rng.range(0, 6) == 0)
        start[j] = 0.F;
      if (zero_style == 3 && rng.range(0, 9) == 0)
        start[j] = -static_cast<float>(rng.unit());
    }
  put_cfg("real", g.nvox, c);
  const int emx_second_k = rng.range(2, std::max(2, c.N)); // a second sub-iteration for the explicit-matrix model (besides the first eligible one)
  int emx_emitted = 0;
  g_cov["real_cases"]++;
  if (c.zero_end)
    {
      g_cov["zero_end_planes_cases"]++;
      g_cov[std::string("zero_end_planes_nsub") + (c.nsub == 1 ? "1" : "N")]++;
      g_cov[std::string("zero_end_planes_span") + std::to_string(g.span)]++;
      g_cov[std::string("zero_end_planes_add") + (d.has_add ? "1" : "0") + "_norm" + (d.has_norm ? "1" : "0")]++;
      if (g.tof)
        g_cov["zero_end_planes_tof"]++;
      if (c.prior_active())
        g_cov["zero_end_planes_with_prior"]++;
    }
  g_cov[std::string("real_map") + std::to_string(c.map_code())]++;
  g_cov[std::string("real_nsub") + std::to_string(c.nsub)]++;

  // ---- A: one sub-iteration at a time, data probed from a second, identically configured objective function
  Objects A;
  shared_ptr<ObjT> probe;
  shared_ptr<TargetT> image(g.tmpl->clone());
  from_vec(*image, start);
  try
    {
      RunCfg ca = c;
      ca.post = false; // the stepwise run has num_subiterations = k at every step: the post-filter belongs to run B
      A = build(g, d, ca, 1, c.N, "");
      if (A.recon->set_up(image) != Succeeded::yes)
        throw std::runtime_error("set_up returned no");
      probe = make_obj(g, d, c);
      probe->set_num_subsets(c.nsub);
      shared_ptr<TargetT> tmp(g.tmpl->clone());
      from_vec(*tmp, start);
      if (probe->set_up(tmp) != Succeeded::yes)
        throw std::runtime_error("probe set_up returned no");
    }
  catch (std::exception& e)
    {
      // an illegal number of subsets etc.: the library refuses; nothing to compare
      g_cov["real_setup_refused"]++;
      return;
    }
  { // ORACLE: the total sensitivity the objective function reports is the sum over all bins of P_bj * efficiency
    const Vec total = to_vec(probe->get_sensitivity());
    RunCfg call = c;
    call.nsub = 1;
    call.use_subset_sens = true;
    Explicit ex = explicit_quantities(g, d, call, start, 0);
    const double gam = 4. * (g.max_row + g.max_col + 16) * eps;
    bool ok = true;
    for (int j = 0; j < g.nvox && ok; ++j)
      ok = std::fabs(total[j] - ex.sens[j]) <= gam * std::fabs(ex.sens[j]) + 1e-30;
    if (!ok && g.tof)
      { // TOF data: the sensitivity of the TOF matrix is the sensitivity just as well (`use time-of-flight sensitivities`)
        ok = true;
        for (int j = 0; j < g.nvox && ok; ++j)
          ok = std::fabs(total[j] - ex.sens_tof[j]) <= gam * std::fabs(ex.sens_tof[j]) + 1e-30;
      }
    ++g_checks;
    if (!ok)
      oracle_fail("total sensitivity differs from the explicit matrix, case=" + name);
  }
  {
    Vec after_setup = to_vec(*image);
    std::fprintf(g_ops, "setup V ");
    put_vec(g_ops, start);
    std::fprintf(g_ops, "\n");
    put_vec(g_out, after_setup);
    std::fprintf(g_out, "\n");
    // ORACLE: with enforce_initial_positivity the image is strictly positive after set_up, otherwise untouched
    ++g_checks;
    bool ok = true;
    for (int j = 0; j < g.nvox; ++j)
      ok = ok && (c.enforce ? (after_setup[j] > 0 && (start[j] <= 0 || after_setup[j] == start[j])) : after_setup[j] == start[j]);
    if (!ok)
      oracle_fail("setup-positivity case=" + name);
  }

  std::vector<Vec> stepwise; // image after sub-iteration k (index k-1)
  struct Step
  {
    Vec before, gps, sens, pg, after_update;
    bool fu_fired;
  };
  std::vector<Step> steps; // what was observed at sub-iteration k (index k-1)
  const Vec image_after_setup = to_vec(*image);
  double prev_ll = 0;
  bool have_prev_ll = false;
  bool finite = true;
  for (int k = 1; k <= c.N && finite; ++k)
    {
      const int subset = expected_subset(c, k);
      const Vec before = to_vec(*image);
      // data for the model: what the real objective function / prior deliver for this image
      shared_ptr<TargetT> gimg(g.tmpl->get_empty_copy());
      probe->compute_sub_gradient_without_penalty_plus_sensitivity(*gimg, *image, subset);
      const Vec gps = to_vec(*gimg);
      const Vec sens = to_vec(probe->get_subset_sensitivity(subset));
      Vec pg;
      if (c.prior_active())
        {
          shared_ptr<TargetT> pimg(g.tmpl->get_empty_copy());
          probe->get_prior_ptr()->compute_gradient(*pimg, *image);
          pg = to_vec(*pimg);
        }
      if (!all_finite(gps) || !all_finite(sens) || !all_finite(pg))
        { // float overflow in what the objective function / prior deliver (images near FLT_MAX): no rational data for the
          // model, nothing the property speaks about; the case ends here like a case with a non-finite image
          g_cov["real_nonfinite_data"]++;
          finite = false;
          break;
        }
      const std::size_t nfu = A.fu ? A.fu->inputs.size() : 0, nfi = A.fi ? A.fi->inputs.size() : 0;
      // the real sub-iteration
      A.recon->set_start_subiteration_num(k);
      A.recon->set_num_subiterations(k);
      A.recon->reconstruct(image);
      const Vec after = to_vec(*image);
      stepwise.push_back(after);
      const bool fu_fired = A.fu && A.fu->inputs.size() > nfu, fi_fired = A.fi && A.fi->inputs.size() > nfi;
      if (fu_fired)
        {
          g_cov["real_inter_update_filter_fired"]++;
          ++g_checks;
          if (!bitwise_equal(A.fu->inputs.back(), before))
            oracle_fail("inter-update filter was not given the current estimate, case=" + name + " k=" + std::to_string(k));
        }
      if (fi_fired)
        g_cov["real_inter_iteration_filter_fired"]++;
      const Vec after_update = fi_fired ? A.fi->inputs.back() : after;
      put_upd(k, subset, before, gps, sens, c.prior_active() ? &pg : nullptr, fu_fired ? &A.fu->outputs.back() : nullptr,
              after_update, fi_fired ? &A.fi->outputs.back() : nullptr, after);
      g_cov["real_subiterations"]++;
      steps.push_back(Step{ before, gps, sens, pg, after_update, fu_fired });
      finite = all_finite(after);
      if (!finite)
        {
          g_cov["real_nonfinite"]++;
          // ORACLE: a finite non-negative image (not near overflow) never becomes non-finite ("non-negative images stay
          // non-negative"; the formula is finite wherever s_S > 0 and 0 elsewhere).  The classes seen on the unchanged tree are
          // pinned: every non-finite voxel must have sensitivity 0 in the implementation, a positive numerator, and be seen
          // by the TOF matrix in this subset - anything else is an ORACLE-FAIL.
          if (all_nonneg(before) && max_or_nan(before) < 1e30F)
            {
              ++g_checks;
              g_cov["real_nonfinite_judged"]++;
              bool pinned = g.tof && !all_finite(after_update);
              int bad = -1, first = -1;
              bool sens_subset_differs = false;
              if (g.tof)
                {
                  const double gam2 = 4. * (g.max_row + g.max_col + 16) * eps;
                  Explicit ex = explicit_quantities(g, d, c, before, subset);
                  Explicit alt = explicit_quantities(g, d, c, before, subset, true);
                  for (int j = 0; j < g.nvox; ++j)
                    {
                      sens_subset_differs = sens_subset_differs || std::fabs(alt.sens[j] - ex.sens[j]) > gam2 * std::fabs(ex.sens[j]) + 1e-30;
                      if (std::isfinite(after_update[j])) // (the image before an inter-iteration filter spreads the inf)
                        continue;
                      if (first < 0)
                        first = j;
                      if (!(sens[j] == 0.F && alt.sens[j] == 0. && gps[j] > 0.F && ex.sens_tof[j] > 0.))
                        {
                          pinned = false;
                          bad = j;
                        }
                    }
                }
              const std::string where = "case=" + name + " k=" + std::to_string(k) + " [" + std::to_string(g.N) + " detectors x "
                                        + std::to_string(g.R) + " rings, span " + std::to_string(g.span) + ", " + std::to_string(g.views)
                                        + " views, " + std::to_string(g.tofbins) + " TOF bins, image " + std::to_string(g.nx) + "x"
                                        + std::to_string(g.ny) + "x" + std::to_string(g.nz) + ", symmetry flags " + std::to_string(g.symflags)
                                        + ", " + std::to_string(c.nsub) + " subsets, subset " + std::to_string(subset)
                                        + (first >= 0 ? ", voxel " + std::to_string(first) + ": lambda " + vh::hex(before[first]) + ", numerator "
                                                            + vh::hex(gps[first]) + ", s used " + vh::hex(sens[first])
                                                      : std::string())
                                        + "]";
              if (pinned && c.nsub > 1 && c.use_subset_sens && sens_subset_differs)
                known_tof_sens_finding(where + " (image becomes non-finite)");
              else if (pinned)
                known_tof_zero_sens_finding(where);
              else
                oracle_fail("a finite non-negative image became non-finite, " + where
                            + (bad >= 0 ? " voxel " + std::to_string(bad) + ": lambda' " + vh::hex(after_update[bad]) + ", numerator " + vh::hex(gps[bad])
                                              + ", s used " + vh::hex(sens[bad])
                                        : ""));
            }
          break;
        }

      // ---------------- ORACLE clauses on this step
      const bool filters = fu_fired || fi_fired;
      const bool nonneg_in = all_nonneg(before);
      // (nonneg) non-negative images stay non-negative
      if (nonneg_in)
        {
          ++g_checks;
          if (!all_nonneg(after))
            oracle_fail("nonneg case=" + name + " k=" + std::to_string(k) + ": " + first_not_nonneg(after));
        }
      Explicit ex = explicit_quantities(g, d, c, before, subset);
      const double gam = 4. * (g.max_row + g.max_col + 16) * eps;
      if (!ex.regular)
        g_cov["real_irregular_steps"]++;
      // (formula) lambda' = lambda * A_S^T[y/(A_S lambda + a)] / s_S, 0 where s_S = 0
      if (!c.prior_active() && !filters && !c.clamps && ex.regular && nonneg_in)
        {
          // operation for the model (`emExplicit`): numerator AND sensitivity formed by the model from the explicit system
          // (`mat` / `dat`), the bins used decided by the model (subset, segments, `zero end planes of segment 0`)
          if (!g.tof && (emx_emitted == 0 || k == emx_second_k) && emx_emitted < 2)
            {
              ++emx_emitted;
              std::vector<int> idx(g.nvox);
              for (int j = 0; j < g.nvox; ++j)
                idx[j] = j;
              const int nj = std::min(g.nvox, 24);
              for (int i = 0; i < nj; ++i)
                std::swap(idx[i], idx[rng.range(i, g.nvox - 1)]);
              const int max_seg = c.max_seg >= 0 ? c.max_seg : g.pdi->get_max_segment_num();
              std::fprintf(g_ops, "emx %d %d %d %d %d %zu J", k, subset, max_seg, c.zero_end ? 1 : 0, c.use_subset_sens ? 1 : 0,
                           g.max_row + g.max_col + 16);
              for (int i = 0; i < nj; ++i)
                std::fprintf(g_ops, " %d", idx[i]);
              std::fprintf(g_ops, " L ");
              put_vec(g_ops, before);
              std::fprintf(g_ops, "\n");
              for (int i = 0; i < nj; ++i)
                std::fprintf(g_out, "%s%a", i ? " " : "", static_cast<double>(after[idx[i]]));
              std::fprintf(g_out, "\n");
              g_cov["explicit_matrix_model_steps"]++;
              if (c.zero_end)
                g_cov["explicit_matrix_model_steps_zero_end_planes"]++;
            }
          // the formula with the explicit sensitivity `s`; `bad` = first voxel off
          auto formula_ok = [&](const std::vector<double>& s_expl, int& bad_voxel) {
            for (int j = 0; j < g.nvox; ++j)
              {
                const double expect = s_expl[j] == 0 ? 0. : before[j] * ex.gps[j] / s_expl[j];
                // a subset sensitivity that is a rounding-level residue is not a "zero" the formula can be tested at
                if (!(std::fabs(after[j] - expect) <= gam * std::fabs(expect) + 1e-30))
                  {
                    bad_voxel = j;
                    return false;
                  }
              }
            return true;
          };
          int bad = -1;
          bool ok = formula_ok(ex.sens, bad);
          // TOF data: s_S of the TOF matrix itself (what `use time-of-flight sensitivities` gives) is s_S just as well as
          // STIR's default, the s_S of the non-TOF matrix
          const std::vector<double>* s_used = &ex.sens;
          if (!ok && g.tof)
            {
              int bad2 = -1;
              if (formula_ok(ex.sens_tof, bad2))
                {
                  ok = true;
                  s_used = &ex.sens_tof;
                  g_cov["oracle_formula_steps_with_tof_sensitivity"]++;
                }
            }
          ++g_checks;
          g_cov["oracle_formula_steps"]++;
          if (c.zero_end)
            g_cov["oracle_formula_steps_zero_end_planes"]++;
          bool known_class = false;
          if (g.tof && c.nsub > 1 && c.use_subset_sens)
            { // does STIR's sensitivity subset (view symmetries of the non-TOF projector) differ from the data subset here?
              Explicit alt = explicit_quantities(g, d, c, before, subset, true);
              bool differs = false, impl_is_alt = true;
              for (int j = 0; j < g.nvox; ++j)
                {
                  differs = differs || std::fabs(alt.sens[j] - ex.sens[j]) > gam * std::fabs(ex.sens[j]) + 1e-30;
                  impl_is_alt = impl_is_alt && std::fabs(sens[j] - alt.sens[j]) <= gam * std::fabs(alt.sens[j]) + 1e-30
                                && std::fabs(gps[j] - ex.gps[j]) <= gam * std::fabs(ex.gps[j]) + 1e-30;
                  if (alt.sens[j] != 0 && std::isfinite(after[j]))
                    impl_is_alt = impl_is_alt
                                  && std::fabs(after[j] - before[j] * ex.gps[j] / alt.sens[j])
                                         <= gam * std::fabs(before[j] * ex.gps[j] / alt.sens[j]) + 1e-30;
                }
              if (differs)
                {
                  g_cov["tof_steps_where_sensitivity_subset_differs_from_data_subset"]++;
                  // pinned from both sides: the implementation must then be exactly "data subset / other sensitivity"
                  known_class = impl_is_alt;
                }
            }
          const std::string where = " [" + std::to_string(g.N) + " detectors x " + std::to_string(g.R) + " rings, " + std::to_string(g.views)
                                    + " views, symmetry flags " + std::to_string(g.symflags) + ", " + std::to_string(c.nsub) + " subsets, subset "
                                    + std::to_string(subset) + (c.use_subset_sens ? ", subset sensitivities" : ", total sensitivity / nsub") + "]";
          if (!ok && known_class)
            known_tof_sens_finding("case=" + name + " k=" + std::to_string(k) + " voxel " + std::to_string(bad) + ": lambda'="
                                   + vh::hex(after[bad]) + ", formula " + vh::hex(ex.sens[bad] == 0 ? 0. : before[bad] * ex.gps[bad] / ex.sens[bad])
                                   + ", s used " + vh::hex(sens[bad]) + ", s_S " + vh::hex(ex.sens[bad]) + where);
          else if (!ok)
            oracle_fail("em-formula case=" + name + " k=" + std::to_string(k) + " voxel=" + std::to_string(bad) + " impl="
                        + vh::hex(after[bad]) + " expected=" + vh::hex(ex.sens[bad] == 0 ? 0. : before[bad] * ex.gps[bad] / ex.sens[bad])
                        + " lambda=" + vh::hex(before[bad]) + " g=" + vh::hex(gps[bad]) + " (explicit " + vh::hex(ex.gps[bad]) + ") s="
                        + vh::hex(sens[bad]) + " (explicit " + vh::hex(ex.sens[bad]) + ")" + where);
          // sensitivities and gradient-plus-sensitivity themselves (the DATA of the model) against the explicit matrix
          auto data_ok = [&](const std::vector<double>& s_expl) {
            for (int j = 0; j < g.nvox; ++j)
              if (!(std::fabs(sens[j] - s_expl[j]) <= gam * std::fabs(s_expl[j]) + 1e-30
                    && std::fabs(gps[j] - ex.gps[j]) <= gam * std::fabs(ex.gps[j]) + 1e-30))
                return false;
            return true;
          };
          // (with zero counts in the subset the formula holds for any sensitivity: either s_S is accepted here as well)
          const bool ok2 = data_ok(*s_used) || (g.tof && (data_ok(ex.sens) || data_ok(ex.sens_tof)));
          ++g_checks;
          if (!ok2 && !known_class)
            oracle_fail("subset sensitivity / gradient-plus-sensitivity differ from the explicit matrix, case=" + name
                        + " k=" + std::to_string(k));
        }
      // (counts) one subset, no additive term: sum_j s_j lambda'_j = sum_b y_b
      if (!c.prior_active() && !filters && !c.clamps && ex.regular && nonneg_in && c.nsub == 1 && !d.has_add)
        {
          double lhs = 0;
          for (int j = 0; j < g.nvox; ++j)
            lhs += static_cast<double>(sens[j]) * after[j];
          // bins with counts but zero estimate are outside the regular region (excluded by ex.regular)
          ++g_checks;
          g_cov["oracle_count_steps"]++;
          if (c.zero_end)
            g_cov["oracle_count_steps_zero_end_planes"]++;
          if (!(std::fabs(lhs - ex.total_counts) <= gam * ex.total_counts + 1e-30))
            oracle_fail("count-preservation case=" + name + " k=" + std::to_string(k) + " weighted_sum=" + vh::hex(lhs)
                        + " counts=" + vh::hex(ex.total_counts));
        }
      // (monotone) one subset, no prior: the Poisson log-likelihood never decreases
      if (!c.prior_active() && !filters && !c.clamps && c.nsub == 1 && nonneg_in)
        {
          shared_ptr<TargetT> tmpb(g.tmpl->clone()), tmpa(g.tmpl->clone());
          from_vec(*tmpb, before);
          from_vec(*tmpa, after);
          const double lb = have_prev_ll ? prev_ll : probe->compute_objective_function(*tmpb);
          const double la = probe->compute_objective_function(*tmpa);
          prev_ll = la;
          have_prev_ll = true;
          Explicit exa = explicit_quantities(g, d, c, after, subset);
          const double tol = 8 * gam * (ex.ll_mag + exa.ll_mag) + 1e-30;
          ++g_checks;
          g_cov["oracle_monotone_steps"]++;
          if (c.zero_end)
            g_cov["oracle_monotone_steps_zero_end_planes"]++;
          if (ex.regular && exa.regular)
            {
              if (!(la >= lb - tol))
                oracle_fail("loglik-decreased case=" + name + " k=" + std::to_string(k) + " before=" + vh::hex(lb)
                            + " after=" + vh::hex(la));
              // and the value is the textbook value (ties compute_objective_function to the statement)
              if (!(std::fabs(la - exa.ll) <= tol))
                oracle_fail("loglik-value case=" + name + " k=" + std::to_string(k) + " impl=" + vh::hex(la)
                            + " textbook=" + vh::hex(exa.ll));
            }
        }
      // (mapden) with a prior: implied denominator g*lambda/lambda' within [s/10, 10 s]
      if (c.prior_active() && !filters && !c.clamps && nonneg_in)
        {
          bool ok = true;
          int bad = -1;
          const float gmax = max_or_nan(gps); // (finite: checked above)
          for (int j = 0; j < g.nvox && ok; ++j)
            {
              if (!(before[j] > 0) || !(gps[j] > 1e-4F * gmax) || !(sens[j] > 1e-4F * gmax))
                continue; // below / near the division threshold of stir::divide, or no information
              if (!(after[j] > 0))
                {
                  ok = false;
                  bad = j;
                  break;
                }
              const double den = static_cast<double>(gps[j]) * before[j] / after[j];
              if (!(den >= sens[j] / 10. * (1 - 64 * eps) && den <= sens[j] * 10. * (1 + 64 * eps)))
                {
                  ok = false;
                  bad = j;
                }
            }
          ++g_checks;
          g_cov["oracle_mapden_steps"]++;
          if (!ok)
            oracle_fail("map-denominator-bounds case=" + name + " k=" + std::to_string(k) + " voxel=" + std::to_string(bad));
        }
    }

  if (!finite || !do_restart)
    return;

  // ---- B: one uninterrupted reconstruct() saving every iterate
  const int si = c.save_interval;
  auto is_saved = [&](int k) { return k % si == 0 || k == c.N; }; // documented: intervals of ABSOLUTE sub-iteration numbers
  const std::string prefB = g_outdir + "/" + name + "_u";
  std::vector<Vec> saved(c.N + 1);
  Objects B;
  RunCfg cb = c;
  cb.save_interval = 1;
  try
    {
      B = build(g, d, cb, 1, c.N, prefB);
      shared_ptr<TargetT> imb(g.tmpl->clone());
      from_vec(*imb, start);
      if (B.recon->set_up(imb) != Succeeded::yes)
        throw std::runtime_error("set_up B");
      B.recon->reconstruct(imb);
      for (int k = 1; k <= c.N; ++k)
        saved[k] = read_image(prefB + "_" + std::to_string(k) + ".hv");
      ++g_checks;
      if (!bitwise_equal(saved[c.N], to_vec(*imb)))
        oracle_fail("saved final image differs from the image in memory, case=" + name);
      ++g_checks;
      if (!bitwise_equal(to_vec(*B.recon->get_target_image()), to_vec(*imb)))
        oracle_fail("get_target_image() is not the reconstructed image, case=" + name);
    }
  catch (std::exception& e)
    {
      ++g_checks;
      oracle_fail("uninterrupted run failed, case=" + name + ": " + e.what());
      return;
    }
  // what the uninterrupted run must have saved: the iterates of the stepwise run; with a post-filter the LAST one
  // (sub-iteration == num_subiterations) filtered, all others untouched
  std::vector<Vec> expected = stepwise;
  if (c.post)
    {
      g_cov["post_filter_runs"]++;
      ++g_checks;
      if (B.fp->inputs.size() != 1 || B.fp->at[0] != c.N)
        oracle_fail("post-filter applied " + std::to_string(B.fp->inputs.size()) + " times (first at sub-iteration "
                    + std::to_string(B.fp->at.empty() ? 0 : B.fp->at[0]) + "), expected once at the last sub-iteration "
                    + std::to_string(c.N) + ", case=" + name);
      else if (!bitwise_equal(B.fp->inputs[0], stepwise[c.N - 1]))
        oracle_fail("post-filter was not given the last iterate, case=" + name);
      expected[c.N - 1] = LogFilter(c.post_shift).compute(stepwise[c.N - 1]);
      // operations for the model (`endOfIterationPost`): iterate k of the unfiltered run -> what is saved as iterate k
      for (int k = 1; k <= c.N; ++k)
        {
          int fired = -1;
          for (std::size_t i = 0; i < B.fp->at.size(); ++i)
            if (B.fp->at[i] == k)
              fired = static_cast<int>(i);
          std::fprintf(g_ops, "post %d %d %d L ", k, c.N, fired >= 0 ? 1 : 0);
          put_vec(g_ops, stepwise[k - 1]);
          if (fired >= 0)
            {
              std::fprintf(g_ops, " F ");
              put_vec(g_ops, B.fp->outputs[fired]);
            }
          std::fprintf(g_ops, "\n");
          put_vec(g_out, saved[k]);
          std::fprintf(g_out, "\n");
        }
    }
  for (int k = 1; k <= c.N; ++k)
    {
      ++g_checks;
      if (!bitwise_equal(saved[k], expected[k - 1]))
        {
          oracle_fail(std::string("stepwise run and uninterrupted run differ after sub-iteration ") + std::to_string(k)
                      + (c.post ? (k == c.N ? " (post-filtered iterate)" : " (post-filter set, not the last iterate)") : "")
                      + ", case=" + name);
          break;
        }
    }
  g_cov["restart_uninterrupted_runs"]++;
  if (c.zero_end)
    g_cov["restart_uninterrupted_runs_zero_end_planes"]++;
  g_cov["restart_save_interval_" + std::to_string(si)]++;
  if (si > 1)
    { // the same run with a save interval: exactly the iterates k % interval == 0 and the last one are written
      const std::string prefS = g_outdir + "/" + name + "_s";
      try
        {
          Objects B2 = build(g, d, c, 1, c.N, prefS);
          shared_ptr<TargetT> imb(g.tmpl->clone());
          from_vec(*imb, start);
          if (B2.recon->set_up(imb) != Succeeded::yes)
            throw std::runtime_error("set_up B2");
          B2.recon->reconstruct(imb);
          for (int k = 1; k <= c.N; ++k)
            {
              const std::string f = prefS + "_" + std::to_string(k) + ".hv";
              ++g_checks;
              if (is_saved(k) != file_exists(f))
                oracle_fail("save_interval=" + std::to_string(si) + ": iterate " + std::to_string(k)
                            + (is_saved(k) ? " not saved" : " saved") + ", case=" + name);
              else if (is_saved(k) && !bitwise_equal(read_image(f), saved[k]))
                oracle_fail("save_interval=" + std::to_string(si) + ": saved iterate " + std::to_string(k) + " differs, case=" + name);
            }
        }
      catch (std::exception& e)
        {
          ++g_checks;
          oracle_fail("uninterrupted run with save interval failed, case=" + name + ": " + e.what());
        }
    }

  // ---- E: the same run with `report objective function values interval` > 0 and `write update image` on (branches executed
  //         inside the update loop): every saved iterate bitwise as without them; the update images are written for every
  //         sub-iteration and are the multiplicative update (model: `updateImage`; image_k = image_{k-1} * limited update)
  if (do_side_branches)
    {
      const std::string prefE = g_outdir + "/" + name + "_e";
      try
        {
          Objects E = build(g, d, cb, 1, c.N, prefE);
          const int ri = rng.range(1, std::max(1, c.N));
          E.recon->set_report_objective_function_values_interval(ri);
          E.recon->set_write_update_image(1);
          shared_ptr<TargetT> ime(g.tmpl->clone());
          from_vec(*ime, start);
          if (E.recon->set_up(ime) != Succeeded::yes)
            throw std::runtime_error("set_up E");
          E.recon->reconstruct(ime);
          g_cov["report_and_update_image_runs"]++;
          int first_diff = -1;
          for (int k = 1; k <= c.N && first_diff < 0; ++k)
            if (!bitwise_equal(read_image(prefE + "_" + std::to_string(k) + ".hv"), saved[k]))
              first_diff = k;
          ++g_checks;
          if (first_diff > 0)
            oracle_fail("run with report_objective_function_values_interval=" + std::to_string(ri)
                        + " and write_update_image differs from the run without them at iterate " + std::to_string(first_diff)
                        + ", case=" + name);
          const float new_min = static_cast<float>(c.clamps ? c.minrel : 0.);
          const float new_max = static_cast<float>(c.clamps ? c.maxrel : std::numeric_limits<float>::max());
          for (int k = 1; k <= c.N; ++k)
            {
              const std::string f = prefE + "_update_" + std::to_string(k) + ".hv";
              ++g_checks;
              if (!file_exists(f))
                {
                  oracle_fail("update image of sub-iteration " + std::to_string(k) + " not written, case=" + name);
                  continue;
                }
              const Vec u = read_image(f);
              const Step& st = steps[k - 1];
              // operation for the model: the update image before the relative-change limits
              std::fprintf(g_ops, "uimg %d %d G ", k, expected_subset(c, k));
              put_vec(g_ops, st.gps);
              std::fprintf(g_ops, " S ");
              put_vec(g_ops, st.sens);
              if (c.prior_active())
                {
                  std::fprintf(g_ops, " P ");
                  put_vec(g_ops, st.pg);
                }
              std::fprintf(g_ops, "\n");
              put_vec(g_out, u);
              std::fprintf(g_out, "\n");
              g_cov["update_images_compared"]++;
              // ORACLE: image after update_estimate = image before (when no inter-update filter fired) * update limited to
              // [minimum_relative_change, maximum_relative_change] (from sub-iteration 2 on), one float product
              if (st.fu_fired || !all_finite(u))
                continue;
              bool ok = true;
              int bad = -1;
              for (int j = 0; j < g.nvox && ok; ++j)
                {
                  float m = u[j];
                  if (k != 1)
                    m = m > new_max ? new_max : (new_min > m ? new_min : m);
                  const volatile float prod = st.before[j] * m;
                  const float e = prod, a = st.after_update[j];
                  if (std::memcmp(&e, &a, sizeof(float)) != 0
                      && !(std::fabs(e) < 4 * std::numeric_limits<float>::min() && std::fabs(a) <= std::fabs(e))) // denormals: flush-to-zero
                    {
                      ok = false;
                      bad = j;
                    }
                }
              ++g_checks;
              if (!ok)
                oracle_fail("written update image * image before != image after, sub-iteration " + std::to_string(k) + " voxel "
                            + std::to_string(bad) + ", case=" + name);
            }
        }
      catch (std::exception& e)
        {
          ++g_checks;
          oracle_fail("run with objective-function report / update images failed, case=" + name + ": " + e.what());
        }
    }

  // ---- P: the users' path from scratch: parameter file with `initial estimate := 0 | 1`, parsed by the constructor, then the
  //         no-argument reconstruct() (get_initial_data_ptr + set_up + reconstruct(target)); must be bitwise the in-memory
  //         path (image filled with 0 / 1, set_up(image), reconstruct(image)) with objects configured through the setters
  if (do_side_branches)
    {
      const std::string init = rng.range(0, 3) == 0 ? "0" : "1";
      const std::string prefP = g_outdir + "/" + name + "_p", prefM = g_outdir + "/" + name + "_m";
      try
        {
          const std::string par = write_par(g, d, cb, 1, c.N, prefP, init);
          OSMAPOSLReconstruction<TargetT> r(par);
          Objects po;
          configure_filters(r, cb, po);
          {
            shared_ptr<TargetT> ini(r.get_initial_data_ptr());
            ++g_checks;
            if (!ini->has_same_characteristics(*g.tmpl))
              oracle_fail("HARNESS: image made by the parameter file differs in geometry from the in-memory template, case=" + name);
            std::fprintf(g_ops, "init %s %d\n", init.c_str(), g.nvox);
            put_vec(g_out, to_vec(*ini));
            std::fprintf(g_out, "\n");
          }
          if (r.reconstruct() != Succeeded::yes)
            throw std::runtime_error("reconstruct() returned no");
          Objects M = build(g, d, cb, 1, c.N, prefM);
          shared_ptr<TargetT> imm(g.tmpl->clone());
          imm->fill(init == "0" ? 0.F : 1.F);
          if (M.recon->set_up(imm) != Succeeded::yes)
            throw std::runtime_error("set_up M");
          M.recon->reconstruct(imm);
          g_cov["parfile_runs_from_" + init]++;
          int first_diff = -1;
          for (int k = 1; k <= c.N && first_diff < 0; ++k)
            {
              bool both;
              if (!same_files(prefP + "_" + std::to_string(k) + ".hv", prefM + "_" + std::to_string(k) + ".hv", both) || !both)
                first_diff = k;
            }
          ++g_checks;
          if (first_diff > 0)
            oracle_fail("parameter file + reconstruct() with initial estimate " + init
                        + " differs from the in-memory path at iterate " + std::to_string(first_diff) + ", case=" + name);
          ++g_checks;
          if (!bitwise_equal(to_vec(*r.get_target_image()), to_vec(*imm)))
            oracle_fail("get_target_image() after reconstruct() (initial estimate " + init
                        + ") is not the image of the in-memory path, case=" + name);
        }
      catch (std::exception& e)
        {
          ++g_checks;
          oracle_fail("parameter-file run (initial estimate " + init + ") failed, case=" + name + ": " + e.what());
        }
    }

  // ---- S: sensitivity files.  (1) `recompute sensitivity := 1` + `sensitivity filename` / `subset sensitivity filenames`: the
  //         (subset) sensitivities are written, bitwise what get_sensitivity() / get_subset_sensitivity() of the probe deliver;
  //         (2) `recompute sensitivity := 0` + the same names: a run that READS them (objects configured through the setters, or
  //         a parameter file with these keywords and `initial estimate := <start image file>`) saves bitwise the iterates of
  //         run B; (3) the files are really used: with files holding TWICE the sensitivity one sub-iteration is the model's
  //         update with S := 2 s (operation `upd`)
  if (do_side_branches)
    {
      RunCfg cw = cb;
      cw.sens_mode = 1;
      cw.sens_prefix = g_outdir + "/" + name;
      try
        {
          {
            Objects W = build(g, d, cw, 1, c.N, "");
            shared_ptr<TargetT> imw(g.tmpl->clone());
            from_vec(*imw, start);
            if (W.recon->set_up(imw) != Succeeded::yes)
              throw std::runtime_error("set_up W");
          }
          bool written_ok = true;
          if (c.use_subset_sens)
            for (int sub = 0; sub < c.nsub && written_ok; ++sub)
              {
                const std::string f = boost::str(boost::format(cw.subsens_pattern()) % sub);
                written_ok = file_exists(f) && bitwise_equal(read_image(f), to_vec(probe->get_subset_sensitivity(sub)));
              }
          else
            written_ok = file_exists(cw.sens_filename()) && bitwise_equal(read_image(cw.sens_filename()), to_vec(probe->get_sensitivity()));
          ++g_checks;
          if (!written_ok)
            oracle_fail(std::string("recompute sensitivity + ") + (c.use_subset_sens ? "subset sensitivity filenames" : "sensitivity filename")
                        + ": file(s) not written or not the sensitivity in use, case=" + name);
          // (2)
          RunCfg cr = cb;
          cr.sens_mode = 2;
          cr.sens_prefix = cw.sens_prefix;
          const bool by_par = rng.coin();
          const std::string prefR = g_outdir + "/" + name + "_sf";
          if (by_par)
            {
              const std::string startfile = g_outdir + "/" + name + "_start.hv";
              {
                shared_ptr<TargetT> ims(g.tmpl->clone());
                from_vec(*ims, start);
                write_to_file(startfile, *ims);
              }
              const std::string par = write_par(g, d, cr, 1, c.N, prefR, startfile);
              OSMAPOSLReconstruction<TargetT> r(par);
              Objects po;
              configure_filters(r, cr, po);
              if (r.reconstruct() != Succeeded::yes)
                throw std::runtime_error("reconstruct() with sensitivity files returned no");
            }
          else
            {
              Objects Rd = build(g, d, cr, 1, c.N, prefR);
              shared_ptr<TargetT> imr(g.tmpl->clone());
              from_vec(*imr, start);
              if (Rd.recon->set_up(imr) != Succeeded::yes)
                throw std::runtime_error("set_up with sensitivity files");
              Rd.recon->reconstruct(imr);
            }
          g_cov[by_par ? "sensitivity_file_runs_parameter_file" : "sensitivity_file_runs_setters"]++;
          g_cov[c.use_subset_sens ? "sensitivity_file_runs_subset_files" : "sensitivity_file_runs_total_file"]++;
          int first_diff = -1;
          for (int k = 1; k <= c.N && first_diff < 0; ++k)
            {
              const std::string f = prefR + "_" + std::to_string(k) + ".hv";
              if (!file_exists(f) || !bitwise_equal(read_image(f), saved[k]))
                first_diff = k;
            }
          ++g_checks;
          if (first_diff > 0)
            oracle_fail(std::string("run reading its sensitivity from file(s) (recompute sensitivity := 0, ")
                        + (by_par ? "parameter file" : "setters") + ") differs from the run computing it at iterate "
                        + std::to_string(first_diff) + ", case=" + name);
          // (3)
          RunCfg cx = c;
          cx.iuf = cx.iif = 0;
          cx.post = false;
          cx.save_interval = 1;
          cx.N = 1;
          cx.sens_mode = 2;
          cx.sens_prefix = g_outdir + "/" + name + "x2";
          {
            shared_ptr<TargetT> tmp(g.tmpl->clone());
            auto twice = [&](const Vec& v, const std::string& f) {
              Vec w(v);
              for (float& x : w)
                x *= 2.F;
              from_vec(*tmp, w);
              write_to_file(f, *tmp);
            };
            if (c.use_subset_sens)
              for (int sub = 0; sub < c.nsub; ++sub)
                twice(to_vec(probe->get_subset_sensitivity(sub)), boost::str(boost::format(cx.subsens_pattern()) % sub));
            else
              twice(to_vec(probe->get_sensitivity()), cx.sens_filename());
          }
          Objects X = build(g, d, cx, 1, 1, "");
          shared_ptr<TargetT> imx(g.tmpl->clone());
          from_vec(*imx, start);
          if (X.recon->set_up(imx) != Succeeded::yes)
            throw std::runtime_error("set_up with doubled sensitivity files");
          ++g_checks;
          if (!bitwise_equal(to_vec(*imx), image_after_setup))
            oracle_fail("set_up with sensitivity files changes the start image differently, case=" + name);
          Vec s2(steps[0].sens);
          for (float& x : s2)
            x *= 2.F;
          // ORACLE: with `recompute sensitivity := 0` and file name(s) given, the sensitivity in use is the one in the file(s)
          ++g_checks;
          if (!bitwise_equal(to_vec(X.obj->get_subset_sensitivity(expected_subset(c, 1))), s2))
            oracle_fail(std::string("recompute sensitivity := 0 with ") + (c.use_subset_sens ? "subset sensitivity filenames" : "sensitivity filename")
                        + ": the sensitivity in use is not the one in the file(s) (s_S of the update is not the documented one), case=" + name);
          X.recon->reconstruct(imx);
          const Vec afterx = to_vec(*imx);
          put_cfg("sensfile", g.nvox, cx);
          put_upd(1, expected_subset(c, 1), image_after_setup, steps[0].gps, s2, c.prior_active() ? &steps[0].pg : nullptr, nullptr, afterx,
                  nullptr, afterx);
          g_cov["sensitivity_file_doubled_steps"]++;
        }
      catch (std::exception& e)
        {
          ++g_checks;
          oracle_fail("run with sensitivity files failed, case=" + name + ": " + e.what());
        }
    }

  // ---- D: history: the same reconstruction + objective function objects, first used with another number of subsets,
  //         then re-configured through the setters and set_up again, give the images of fresh objects
  if (legal.size() > 1)
    {
      RunCfg other = c;
      do
        other.nsub = legal[rng.range(0, static_cast<int>(legal.size()) - 1)];
      while (other.nsub == c.nsub);
      other.start_subset = rng.range(0, other.nsub - 1);
      other.N = rng.range(1, 3);
      other.save_interval = 1;
      const std::string prefD = g_outdir + "/" + name + "_h";
      try
        {
          Objects D = build(g, d, other, 1, other.N, "");
          shared_ptr<TargetT> im0(g.tmpl->clone());
          from_vec(*im0, start);
          if (D.recon->set_up(im0) != Succeeded::yes)
            throw std::runtime_error("set_up D (first use)");
          D.recon->reconstruct(im0);
          // re-configure the same objects
          RunCfg cb = c;
          cb.save_interval = 1;
          D.recon->set_disable_output(false);
          configure_recon(*D.recon, D.obj, cb, D, 1, c.N, prefD);
          shared_ptr<TargetT> im1(g.tmpl->clone());
          from_vec(*im1, start);
          if (D.recon->set_up(im1) != Succeeded::yes)
            throw std::runtime_error("set_up D (second use)");
          D.recon->reconstruct(im1);
          int first_diff = -1;
          for (int k = 1; k <= c.N && first_diff < 0; ++k)
            if (!bitwise_equal(read_image(prefD + "_" + std::to_string(k) + ".hv"), saved[k]))
              first_diff = k;
          ++g_checks;
          g_cov["history_reuse_runs"]++;
          if (first_diff > 0)
            oracle_fail("objects re-used after a run with " + std::to_string(other.nsub) + " subsets differ from fresh objects at iterate "
                        + std::to_string(first_diff) + ", case=" + name + " nsub=" + std::to_string(c.nsub));
        }
      catch (std::exception& e)
        {
          ++g_checks;
          oracle_fail("re-used objects failed, case=" + name + ": " + e.what());
        }
    }

  // ---- C: restart at every k (with the configured save interval), enforce_initial_positivity on and off.
  //         enf == c.enforce: the resumed reconstruction has the configuration of the uninterrupted one (the property's
  //         statement, judged strictly).  enf != c.enforce: the option was changed for the resumed run: switching it OFF
  //         must still reproduce the run (the state is (image_k, k) only); switching it ON for a run that was made with
  //         it off is another configuration (set_up is documented to lift the non-positive values of the image it is
  //         given), judged only when set_up had nothing to lift.
  for (int enf = 0; enf < 2; ++enf)
    for (int k = 1; k < c.N; ++k)
      {
        RunCfg cr = c;
        cr.enforce = enf != 0;
        const bool same_cfg = cr.enforce == c.enforce;
        const std::string prefC = g_outdir + "/" + name + "_r" + std::to_string(enf) + "_" + std::to_string(k);
        try
          {
            Objects C = build(g, d, cr, k + 1, c.N, prefC);
            shared_ptr<TargetT> imc(read_from_file<TargetT>(prefB + "_" + std::to_string(k) + ".hv"));
            const Vec loaded = to_vec(*imc);
            if (C.recon->set_up(imc) != Succeeded::yes)
              throw std::runtime_error("set_up C");
            const Vec after_setup = to_vec(*imc);
            { // what set_up of the resumed run does to the saved image: an operation for the Lean model (`setUp`)
              put_cfg("restart", g.nvox, cr);
              std::fprintf(g_ops, "setup V ");
              put_vec(g_ops, loaded);
              std::fprintf(g_ops, "\n");
              put_vec(g_out, after_setup);
              std::fprintf(g_out, "\n");
            }
            C.recon->reconstruct(imc);
            bool same = true;
            int first_diff = -1;
            for (int m = k + 1; m <= c.N && same; ++m)
              {
                const std::string f = prefC + "_" + std::to_string(m) + ".hv";
                if (!is_saved(m))
                  {
                    if (file_exists(f))
                      throw std::runtime_error("resumed run saved iterate " + std::to_string(m) + " which the uninterrupted run does not save");
                    continue;
                  }
                if (!bitwise_equal(read_image(f), saved[m]))
                  {
                    same = false;
                    first_diff = m;
                  }
              }
            ++g_checks;
            g_cov["restart_points"]++;
            { // the same restart as users make it: parameter file with `initial estimate := <saved image k>` and
              // `start at subiteration number := k+1`, no-argument reconstruct(): bitwise the in-memory resumed run
              // (so whatever holds / fails for the one holds / fails for the other)
              const std::string prefR = prefC + "p";
              const std::string par = write_par(g, d, cr, k + 1, c.N, prefR, prefB + "_" + std::to_string(k) + ".hv");
              OSMAPOSLReconstruction<TargetT> r(par);
              Objects po;
              configure_filters(r, cr, po);
              {
                shared_ptr<TargetT> ini(r.get_initial_data_ptr());
                std::fprintf(g_ops, "init file %d V ", g.nvox);
                put_vec(g_ops, loaded);
                std::fprintf(g_ops, "\n");
                put_vec(g_out, to_vec(*ini));
                std::fprintf(g_out, "\n");
              }
              if (r.reconstruct() != Succeeded::yes)
                throw std::runtime_error("reconstruct() of the parameter-file restart returned no");
              g_cov["parfile_restart_points"]++;
              int pdiff = -1;
              for (int m = k + 1; m <= c.N && pdiff < 0; ++m)
                {
                  bool both;
                  if (!same_files(prefR + "_" + std::to_string(m) + ".hv", prefC + "_" + std::to_string(m) + ".hv", both))
                    pdiff = m;
                }
              ++g_checks;
              if (pdiff > 0)
                oracle_fail("restart by parameter file (initial estimate = saved image " + std::to_string(k)
                            + ", start at subiteration number " + std::to_string(k + 1)
                            + ") + reconstruct() differs from read_from_file + set_up + reconstruct(image) at iterate "
                            + std::to_string(pdiff) + ", case=" + name + " enforce=" + std::to_string(enf));
              ++g_checks;
              if (!bitwise_equal(to_vec(*r.get_target_image()), to_vec(*imc)))
                oracle_fail("restart by parameter file: final image in memory differs, case=" + name + " k=" + std::to_string(k));
            }
            const bool has_nonpos = !all_positive(loaded);
            if (has_nonpos)
              g_cov[enf ? "restart_points_with_exact_zeros_enforce_on" : "restart_points_with_exact_zeros_enforce_off"]++;
            if (!same)
              {
                const bool lifted = !bitwise_equal(loaded, after_setup);
                if (enf && has_nonpos && lifted && same_cfg)
                  {
                    // the property's statement fails: same configuration as the uninterrupted run (option on, the
                    // default), the zeros of image_k were produced by the run itself (its own start image was made
                    // strictly positive by set_up)
                    g_cov["restart_broken_by_enforced_positivity"]++;
                    { // ... and the lifting is ALL the option does: a run with the option off, started at k+1 from the
                      // lifted image, gives the images of the resumed run bitwise (so nothing else hides in this class)
                      RunCfg cx = c;
                      cx.enforce = false;
                      const std::string prefX = prefC + "x";
                      Objects X = build(g, d, cx, k + 1, c.N, prefX);
                      shared_ptr<TargetT> imx(read_from_file<TargetT>(prefB + "_" + std::to_string(k) + ".hv"));
                      from_vec(*imx, after_setup);
                      if (X.recon->set_up(imx) != Succeeded::yes)
                        throw std::runtime_error("set_up X");
                      X.recon->reconstruct(imx);
                      ++g_checks;
                      for (int m = k + 1; m <= c.N; ++m)
                        if (is_saved(m)
                            && !bitwise_equal(read_image(prefX + "_" + std::to_string(m) + ".hv"),
                                              read_image(prefC + "_" + std::to_string(m) + ".hv")))
                          {
                            oracle_fail("resumed run with enforce_initial_positivity on is not the run (option off) from the lifted image, "
                                        "iterate " + std::to_string(m) + ", case=" + name + " k=" + std::to_string(k));
                            break;
                          }
                    }
                    { // size of the deviation (information for the evidence file): largest |resumed - uninterrupted| over
                      // the saved iterates, relative to the largest voxel of the uninterrupted iterate, in parts per 10^9
                      double worst = 0;
                      for (int m = k + 1; m <= c.N; ++m)
                        {
                          const std::string f = prefC + "_" + std::to_string(m) + ".hv";
                          if (!is_saved(m) || !file_exists(f))
                            continue;
                          const Vec r = read_image(f);
                          const double mx = max_or_nan(saved[m]);
                          for (int j = 0; j < g.nvox && mx > 0; ++j)
                            worst = std::max(worst, std::fabs(static_cast<double>(r[j]) - saved[m][j]) / mx);
                        }
                      long& w = g_cov["restart_broken_largest_deviation_ppb_of_image_max"];
                      w = std::max(w, static_cast<long>(std::min(worst, 1e9) * 1e9));
                    }
                    known_restart_finding("case=" + name + " k=" + std::to_string(k) + " first differing iterate="
                                          + std::to_string(first_diff) + " nsub=" + std::to_string(c.nsub)
                                          + " map=" + std::to_string(c.map_code()));
                  }
                else if (enf && has_nonpos && lifted)
                  g_cov["restart_with_option_switched_on_lifts_zeros_not_judged"]++;
                else
                  oracle_fail("restart at k+1=" + std::to_string(k + 1) + " differs from the uninterrupted run at iterate "
                              + std::to_string(first_diff) + ", case=" + name + " enforce=" + std::to_string(enf)
                              + " image_k_has_nonpositive=" + std::to_string(has_nonpos));
              }
          }
        catch (std::exception& e)
          {
            ++g_checks;
            oracle_fail("restarted run failed, case=" + name + " k=" + std::to_string(k) + ": " + e.what());
          }
      }
}

// ------------------------------------------------------------------------------------------------ filter stream
// User filters that are real registered data processors — single ones and ChainedDataProcessor objects of the user (2 and 3
// members, smoothing + sharpening in both orders, chains holding a thresholding already, nested chains, null members) — in the
// inter-update, inter-iteration and post-filter slot, given through the setters or parsed from a parameter file, on an object
// whose set_up() is called 1-3 times in a row.  Compared sub-iteration by sub-iteration with the Lean model of the slots
// (`Slots.setUpN`, `updateEstimateS`, `endOfIterationS`: the model wraps the slot as set_up does and applies the object; what
// every member filter returns is data, from a separate object of that member) and with the non-negativity clause (NaN-aware).
static void
put_leafs(FILE* f, const std::vector<Vec>& leafs)
{
  for (auto& v : leafs)
    {
      std::fprintf(f, " F ");
      put_vec(f, v);
    }
}

// an object configured by `c` (filter descriptions included), made through the setters or from a parameter file
static Objects
build_either(const Geo& g, const Data& d, const RunCfg& c, bool by_par, int start, int last, const std::string& prefix,
             const std::string& initial)
{
  if (!by_par)
    return build(g, d, c, start, last, prefix);
  Objects o;
  const std::string par = write_par(g, d, c, start, last, prefix, initial);
  o.recon.reset(new OSMAPOSLReconstruction<TargetT>(par));
  return o;
}

static void
run_filter_case(const std::string& name, const Geo& g, const Data& d, vh::Rng& rng, const std::vector<int>& legal, bool thorough)
{
  RunCfg c;
  c.nsub = legal[rng.range(0, static_cast<int>(legal.size()) - 1)];
  c.start_subset = rng.range(0, c.nsub - 1);
  c.N = rng.range(3, thorough ? 6 : 4);
  c.use_subset_sens = rng.range(0, 3) != 0;
  c.enforce = rng.range(0, 3) != 0;
  if (rng.range(0, 2) == 0)
    {
      c.prior = rng.range(1, 2);
      c.map = rng.range(1, 2);
      c.beta = static_cast<float>(0.3 + rng.unit());
    }
  if (rng.range(0, 4) == 0)
    {
      c.clamps = true;
      c.minrel = 0.25 * rng.range(0, 3);
      c.maxrel = 1. + 0.25 * rng.range(0, 8);
    }
  // which object comes from a parameter file: 0 none (the harness-defined LogFilter may then be a member), 1 the stepwise
  // object A, 2 the uninterrupted object B
  const int par_obj = rng.range(0, 2);
  const bool allow_log = par_obj == 0;
  const int slots = rng.range(0, 5); // inter-update / inter-iteration: one of them, or both
  if (slots != 1)
    {
      c.fu_spec.reset(new FSpec(random_slot(rng, allow_log)));
      c.iuf = rng.range(1, 2);
    }
  if (slots == 1 || slots >= 3)
    {
      c.fi_spec.reset(new FSpec(random_slot(rng, allow_log)));
      c.iif = rng.range(1, 2);
    }
  shared_ptr<FSpec> post_spec;
  if (rng.coin())
    post_spec.reset(new FSpec(random_slot(rng, allow_log)));
  const int nsetups = rng.range(1, 3);
  const bool a_par = par_obj == 1, b_par = par_obj == 2;

  Vec start(g.nvox);
  for (int j = 0; j < g.nvox; ++j)
    start[j] = static_cast<float>(0.25 + 2 * rng.unit());
  const std::string startfile = g_outdir + "/" + name + "_start.hv";
  {
    shared_ptr<TargetT> ims(g.tmpl->clone());
    from_vec(*ims, start);
    write_to_file(startfile, *ims);
  }
  put_cfg("filter", g.nvox, c);
  g_cov["filter_cases"]++;
  g_cov["filter_cases_setups_" + std::to_string(nsetups)]++;
  g_cov[a_par ? "filter_cases_stepwise_object_from_parameter_file" : "filter_cases_stepwise_object_by_setters"]++;
  for (const shared_ptr<FSpec>& sp : { c.fu_spec, c.fi_spec, post_spec })
    if (sp)
      {
        g_cov[sp->has_chain() ? "filter_slots_user_chain" : "filter_slots_single_filter"]++;
        if (sp->has_chain())
          g_cov["filter_slots_user_chain_members_" + std::to_string(std::min(sp->members(), 4)) + (sp->members() >= 4 ? "plus" : "")]++;
      }
  if (c.fu_spec)
    g_cov["filter_cases_inter_update_slot"]++;
  if (c.fi_spec)
    g_cov["filter_cases_inter_iteration_slot"]++;
  if (post_spec)
    g_cov["filter_cases_post_slot"]++;
  const std::string slots_txt = std::string(" [inter-update: ") + (c.fu_spec ? c.fu_spec->name() + " every " + std::to_string(c.iuf) : "none")
                                + ", inter-iteration: " + (c.fi_spec ? c.fi_spec->name() + " every " + std::to_string(c.iif) : "none")
                                + ", post: " + (post_spec ? post_spec->name() : "none") + ", " + std::to_string(nsetups) + " set_up calls, "
                                + (a_par ? "parameter file" : "setters") + "]";

  // ---- A: one sub-iteration at a time; T: the twin without inter-iteration filter (shows the image after update_estimate)
  Objects A, T;
  shared_ptr<ObjT> probe;
  shared_ptr<TargetT> image(g.tmpl->clone());
  from_vec(*image, start);
  try
    {
      RunCfg ca = c;
      ca.filters_from_text = a_par;
      A = build_either(g, d, ca, a_par, 1, c.N, g_outdir + "/" + name + "_a", startfile);
      A.recon->set_disable_output(true);
      Vec first;
      for (int i = 0; i < nsetups; ++i)
        {
          if (A.recon->set_up(image) != Succeeded::yes)
            throw std::runtime_error("set_up returned no");
          if (i == 0)
            first = to_vec(*image);
        }
      // ORACLE: further set_up calls leave the (already positive) start image alone
      ++g_checks;
      if (!bitwise_equal(first, to_vec(*image)))
        oracle_fail("repeated set_up changes the start image again, case=" + name + slots_txt);
      if (c.fi_spec)
        {
          RunCfg ct = c;
          ct.fi_spec.reset();
          ct.iif = 0;
          ct.filters_from_text = a_par;
          T = build(g, d, ct, 1, c.N, "");
          shared_ptr<TargetT> timg(g.tmpl->clone());
          from_vec(*timg, start);
          if (T.recon->set_up(timg) != Succeeded::yes)
            throw std::runtime_error("twin set_up returned no");
        }
      probe = make_obj(g, d, c);
      probe->set_num_subsets(c.nsub);
      shared_ptr<TargetT> tmp(g.tmpl->clone());
      from_vec(*tmp, start);
      if (probe->set_up(tmp) != Succeeded::yes)
        throw std::runtime_error("probe set_up returned no");
    }
  catch (std::exception& e)
    {
      ++g_checks;
      oracle_fail("filter case could not be set up, case=" + name + slots_txt + ": " + e.what());
      return;
    }
  std::vector<Vec> stepwise;
  bool finite = true;
  for (int k = 1; k <= c.N && finite; ++k)
    {
      const int subset = expected_subset(c, k);
      const Vec before = to_vec(*image);
      shared_ptr<TargetT> gimg(g.tmpl->get_empty_copy());
      probe->compute_sub_gradient_without_penalty_plus_sensitivity(*gimg, *image, subset);
      const Vec gps = to_vec(*gimg);
      const Vec sens = to_vec(probe->get_subset_sensitivity(subset));
      Vec pg;
      if (c.prior_active())
        {
          shared_ptr<TargetT> pimg(g.tmpl->get_empty_copy());
          probe->get_prior_ptr()->compute_gradient(*pimg, *image);
          pg = to_vec(*pimg);
        }
      if (!all_finite(gps) || !all_finite(sens) || !all_finite(pg))
        {
          g_cov["filter_nonfinite_data"]++;
          break;
        }
      if (g.tof)
        { // the two pinned TOF classes (known findings em-formula:tof-…: sensitivity 0 with a positive numerator, the update is
          // inf whatever the filters do): judged, with their full signature, by the real stream; the case ends here
          bool known = false;
          for (int j = 0; j < g.nvox; ++j)
            known = known || (sens[j] == 0.F && gps[j] > 0.F);
          if (known)
            {
              g_cov["filter_cases_ended_by_pinned_tof_class"]++;
              break;
            }
        }
      const bool iu_fires = c.fu_spec && k % c.iuf == 0, ii_fires = c.fi_spec && k % c.iif == 0;
      std::vector<Vec> leaf_u, leaf_i;
      try
        {
          if (iu_fires)
            {
              shared_ptr<TargetT> tmp(g.tmpl->clone());
              from_vec(*tmp, before);
              walk_filter(*c.fu_spec, a_par, *tmp, leaf_u);
            }
          A.recon->set_start_subiteration_num(k);
          A.recon->set_num_subiterations(k);
          if (A.recon->reconstruct(image) != Succeeded::yes)
            throw std::runtime_error("reconstruct returned no");
        }
      catch (std::exception& e)
        {
          ++g_checks;
          oracle_fail("filter case failed at sub-iteration " + std::to_string(k) + ", case=" + name + slots_txt + ": " + e.what());
          return;
        }
      const Vec after = to_vec(*image);
      Vec after_update = after;
      if (ii_fires)
        {
          shared_ptr<TargetT> timg(g.tmpl->clone());
          from_vec(*timg, before);
          T.recon->set_start_subiteration_num(k);
          T.recon->set_num_subiterations(k);
          T.recon->reconstruct(timg);
          after_update = to_vec(*timg);
          if (all_finite(after_update))
            {
              shared_ptr<TargetT> tmp(g.tmpl->clone());
              from_vec(*tmp, after_update);
              walk_filter(*c.fi_spec, a_par, *tmp, leaf_i);
            }
        }
      bool leafs_finite = true;
      for (auto& v : leaf_u)
        leafs_finite = leafs_finite && all_finite(v);
      for (auto& v : leaf_i)
        leafs_finite = leafs_finite && all_finite(v);
      // ORACLE (nonneg, NaN-aware): "with filters on, non-negative images stay non-negative" - judged before anything else
      if (all_nonneg(before))
        {
          ++g_checks;
          g_cov["filter_oracle_nonneg_steps"]++;
          if (!all_nonneg(after))
            oracle_fail("nonneg with filters on: case=" + name + " k=" + std::to_string(k) + slots_txt + ": " + first_not_nonneg(after));
          // the filter stage itself: when the inter-iteration filter fired its (thresholded) output is the image: strictly positive
          // (not where min_positive * 1e-6 underflows to 0 in float: then the smallest positive value of the output is < 1e-30 and
          // zeros may stay - the property asks for non-negativity only)
          if (ii_fires)
            {
              ++g_checks;
              float minpos = std::numeric_limits<float>::infinity();
              for (float v : after)
                if (v > 0)
                  minpos = std::min(minpos, v);
              if (!all_positive(after) && !(minpos < 1e-30F))
                oracle_fail("inter-iteration filter output not strictly positive (no thresholding behind the user's filter?): case=" + name
                            + " k=" + std::to_string(k) + slots_txt);
              else if (!all_positive(after))
                g_cov["filter_threshold_underflow_steps"]++;
            }
        }
      if (!leafs_finite)
        { // a member filter overflowed: no rational data for the model
          g_cov["filter_nonfinite_member_output"]++;
          break;
        }
      // operations for the model
      std::fprintf(g_ops, "upd %d %d %d", k, subset, ii_fires ? 1 : 0);
      if (c.fu_spec)
        std::fprintf(g_ops, " C %d %s", nsetups, c.fu_spec->descr().c_str());
      std::fprintf(g_ops, " L ");
      put_vec(g_ops, before);
      std::fprintf(g_ops, " G ");
      put_vec(g_ops, gps);
      std::fprintf(g_ops, " S ");
      put_vec(g_ops, sens);
      if (c.prior_active())
        {
          std::fprintf(g_ops, " P ");
          put_vec(g_ops, pg);
        }
      put_leafs(g_ops, leaf_u);
      std::fprintf(g_ops, "\n");
      put_vec(g_out, after_update);
      std::fprintf(g_out, "\n");
      g_cov["filter_subiterations"]++;
      if (iu_fires)
        g_cov["filter_inter_update_fired"]++;
      if (ii_fires && all_finite(after_update))
        {
          std::fprintf(g_ops, "eoi %d C %d %s L ", k, nsetups, c.fi_spec->descr().c_str());
          put_vec(g_ops, after_update);
          put_leafs(g_ops, leaf_i);
          std::fprintf(g_ops, "\n");
          put_vec(g_out, after);
          std::fprintf(g_out, "\n");
          g_cov["filter_inter_iteration_fired"]++;
        }
      stepwise.push_back(after);
      finite = all_finite(after);
      if (!finite)
        {
          g_cov["filter_nonfinite"]++;
          if (all_nonneg(before) && max_or_nan(before) < 1e30F)
            {
              ++g_checks;
              oracle_fail("a finite non-negative image became non-finite (filters on), case=" + name + " k=" + std::to_string(k) + slots_txt);
            }
        }
    }
  if (!finite || static_cast<int>(stepwise.size()) != c.N)
    return;

  // ---- B: one uninterrupted run of an object made the OTHER way (setters <-> parameter file), set_up called `nsetups` times,
  //         with the post-filter: saved iterates = stepwise iterates (bitwise), the last one post-filtered (operation `post`:
  //         set_up does not wrap the post-filter, its output is saved as it is)
  const std::string prefB = g_outdir + "/" + name + "_b";
  try
    {
      RunCfg cb = c;
      cb.fp_spec = post_spec;
      cb.filters_from_text = b_par;
      Objects B = build_either(g, d, cb, b_par, 1, c.N, prefB, startfile);
      shared_ptr<TargetT> imb(g.tmpl->clone());
      from_vec(*imb, start);
      for (int i = 0; i < (b_par ? nsetups - 1 : nsetups); ++i)
        if (B.recon->set_up(imb) != Succeeded::yes)
          throw std::runtime_error("set_up B");
      if ((b_par ? B.recon->reconstruct() : B.recon->reconstruct(imb)) != Succeeded::yes) // (no-argument form: one more set_up)
        throw std::runtime_error("reconstruct B returned no");
      g_cov[b_par ? "filter_uninterrupted_runs_parameter_file" : "filter_uninterrupted_runs_setters"]++;
      bool b_ok = true;
      for (int k = 1; k <= c.N; ++k)
        {
          const std::string f = prefB + "_" + std::to_string(k) + ".hv";
          ++g_checks;
          b_ok = false;
          if (!file_exists(f))
            {
              oracle_fail("uninterrupted run with user filters did not save iterate " + std::to_string(k) + ", case=" + name + slots_txt);
              break;
            }
          const Vec sv = read_image(f);
          if (k < c.N || !post_spec)
            {
              if (!bitwise_equal(sv, stepwise[k - 1]))
                {
                  oracle_fail(std::string("stepwise run and uninterrupted run (object made ") + (b_par ? "from a parameter file" : "by setters")
                              + ") differ after sub-iteration " + std::to_string(k) + ", case=" + name + slots_txt);
                  break;
                }
              if (k < c.N && post_spec)
                { // (the model: the post-filter is not called before the last sub-iteration)
                  std::fprintf(g_ops, "post %d %d 0 C %d %s L ", k, c.N, nsetups, post_spec->descr().c_str());
                  put_vec(g_ops, stepwise[k - 1]);
                  std::fprintf(g_ops, "\n");
                  put_vec(g_out, sv);
                  std::fprintf(g_out, "\n");
                }
            }
          else
            {
              std::vector<Vec> leaf_p;
              shared_ptr<TargetT> tmp(g.tmpl->clone());
              from_vec(*tmp, stepwise[k - 1]);
              walk_filter(*post_spec, b_par, *tmp, leaf_p);
              bool lf = all_finite(sv);
              for (auto& v : leaf_p)
                lf = lf && all_finite(v);
              if (!lf)
                break;
              std::fprintf(g_ops, "post %d %d 1 C %d %s L ", k, c.N, nsetups, post_spec->descr().c_str());
              put_vec(g_ops, stepwise[k - 1]);
              put_leafs(g_ops, leaf_p);
              std::fprintf(g_ops, "\n");
              put_vec(g_out, sv);
              std::fprintf(g_out, "\n");
              g_cov["filter_post_filtered_iterates"]++;
              // ORACLE: bitwise the members applied one by one to the last iterate
              if (!bitwise_equal(sv, to_vec(*tmp)))
                oracle_fail("post-filtered last iterate is not the user's post-filter applied to the last iterate, case=" + name + slots_txt);
            }
          b_ok = true;
        }
      // ---- C: one restart point: an object of its own (made like B, set_up called `nsetups` times), started at k+1 from the
      //         image saved after k, saves bitwise what B saved (judged where set_up has nothing to lift in the saved image: the
      //         other inputs are those of the known finding restart:enforce-initial-positivity-lifts-exact-zeros, real stream)
      if (b_ok && c.N >= 2)
        {
          const int k = rng.range(1, c.N - 1);
          const std::string fk = prefB + "_" + std::to_string(k) + ".hv", prefC = g_outdir + "/" + name + "_c";
          if (!c.enforce || all_positive(read_image(fk)))
            {
              Objects C = build_either(g, d, cb, b_par, k + 1, c.N, prefC, fk);
              shared_ptr<TargetT> imc(read_from_file<TargetT>(fk));
              for (int i = 0; i < (b_par ? nsetups - 1 : nsetups); ++i)
                if (C.recon->set_up(imc) != Succeeded::yes)
                  throw std::runtime_error("set_up C");
              if ((b_par ? C.recon->reconstruct() : C.recon->reconstruct(imc)) != Succeeded::yes)
                throw std::runtime_error("reconstruct C returned no");
              g_cov["filter_restart_points"]++;
              for (int m = k + 1; m <= c.N; ++m)
                {
                  bool both;
                  ++g_checks;
                  if (!same_files(prefC + "_" + std::to_string(m) + ".hv", prefB + "_" + std::to_string(m) + ".hv", both) || !both)
                    {
                      oracle_fail("restart at k+1=" + std::to_string(k + 1) + " with user filters differs from the uninterrupted run at iterate "
                                  + std::to_string(m) + ", case=" + name + slots_txt);
                      break;
                    }
                }
            }
        }
    }
  catch (std::exception& e)
    {
      ++g_checks;
      oracle_fail("uninterrupted run with user filters failed, case=" + name + slots_txt + ": " + e.what());
    }
}

// the data processors on their own: a described object (made by constructors or parsed), applied to an image with zeros and
// negatives, against the model's `Filt.apply` (operation `flt`); the thresholding processor alone also on images without any
// positive value
static void
run_flt_cases(const Geo& g, vh::Rng& rng, int count)
{
  for (int t = 0; t < count; ++t)
    {
      const bool from_text = rng.coin();
      const FSpec spec = t % 3 == 0 ? FSpec::leaf(6) : random_slot(rng, !from_text);
      const int style = rng.range(0, 3);
      Vec in(g.nvox);
      for (int j = 0; j < g.nvox; ++j)
        {
          in[j] = static_cast<float>(0.1 + 2 * rng.unit());
          if (style >= 1 && rng.range(0, 4) == 0)
            in[j] = 0.F;
          if (style >= 2 && rng.range(0, 4) == 0)
            in[j] = -static_cast<float>(rng.unit());
          if (style == 3 && in[j] > 0)
            in[j] = rng.coin() ? 0.F : -in[j]; // nothing positive
        }
      try
        {
          shared_ptr<TargetT> img(g.tmpl->clone());
          from_vec(*img, in);
          shared_ptr<DataProcessor<TargetT>> obj = make_filter(spec, from_text);
          if (obj->apply(*img) != Succeeded::yes)
            throw std::runtime_error("apply returned no");
          const Vec out = to_vec(*img);
          std::vector<Vec> leafs;
          shared_ptr<TargetT> tmp(g.tmpl->clone());
          from_vec(*tmp, in);
          walk_filter(spec, from_text, *tmp, leafs);
          bool lf = all_finite(out);
          for (auto& v : leafs)
            lf = lf && all_finite(v);
          if (!lf)
            continue;
          std::fprintf(g_ops, "flt C 0 %s L ", spec.descr().c_str());
          put_vec(g_ops, in);
          put_leafs(g_ops, leafs);
          std::fprintf(g_ops, "\n");
          put_vec(g_out, out);
          std::fprintf(g_out, "\n");
          g_cov[spec.kind == 6 ? "data_processor_ops_threshold_alone" : "data_processor_ops_user_objects"]++;
          // ORACLE: the thresholding processor delivers a strictly positive image and keeps what was positive
          if (spec.kind == 6)
            {
              ++g_checks;
              bool ok = true;
              for (int j = 0; j < g.nvox; ++j)
                ok = ok && out[j] > 0 && (!(in[j] > 0) || out[j] >= in[j]);
              if (!ok)
                oracle_fail("ThresholdMinToSmallPositiveValueDataProcessor: output not strictly positive");
            }
        }
      catch (std::exception& e)
        {
          ++g_checks;
          oracle_fail(std::string("data processor ") + spec.name() + " failed: " + e.what());
        }
    }
}

// ------------------------------------------------------------------------------------------------ viewgram space
// divide_and_truncate (the quotient y / (A lambda + a) of the update) through the public function on related viewgrams of the
// geometry: all-zero viewgrams (0/0), zero and negative denominators, zero / tiny / negative numerators, regular values.
// ORACLE (NaN-aware): every quotient is a number in [0, 10^4]; a bin without counts gives exactly 0 (0/0 included); on the
// regular region it is y/ybar.  The Lean model (`divideAndTruncate`) answers the same viewgrams (operation `dvt`).
static void
run_divide_cases(const Geo& g, vh::Rng& rng, int count)
{
  shared_ptr<ProjMatrixByBinUsingRayTracing> pm = make_pm(g.symflags);
  pm->set_up(g.pdi, g.tmpl);
  const shared_ptr<DataSymmetriesForViewSegmentNumbers> sym = pm->get_symmetries_sptr();
  shared_ptr<ExamInfo> ei(new ExamInfo);
  ei->imaging_modality = ImagingModality::PT;
  ProjDataInMemory pd(ei, g.pdi);
  for (int t = 0; t < count; ++t)
    {
      const int style = t % 6;
      ViewSegmentNumbers vs(rng.range(g.pdi->get_min_view_num(), g.pdi->get_max_view_num()),
                            rng.range(g.pdi->get_min_segment_num(), g.pdi->get_max_segment_num()));
      sym->find_basic_view_segment_numbers(vs);
      const int tpos = rng.range(g.pdi->get_min_tof_pos_num(), g.pdi->get_max_tof_pos_num());
      RelatedViewgrams<float> num = pd.get_empty_related_viewgrams(vs, sym, false, tpos);
      RelatedViewgrams<float> den = pd.get_empty_related_viewgrams(vs, sym, false, tpos);
      {
        RelatedViewgrams<float>::iterator ni = num.begin(), di = den.begin();
        for (; ni != num.end(); ++ni, ++di)
          for (int ax = ni->get_min_axial_pos_num(); ax <= ni->get_max_axial_pos_num(); ++ax)
            for (int tang = ni->get_min_tangential_pos_num(); tang <= ni->get_max_tangential_pos_num(); ++tang)
              {
                float y = 0.F, q = 0.F;
                switch (style)
                  {
                  case 0: // 0/0 everywhere
                    break;
                  case 1: // no counts, any denominator
                    q = rng.range(0, 2) == 0 ? 0.F : static_cast<float>(-1 + 3 * rng.unit());
                    break;
                  case 2: // counts, positive estimate
                    y = static_cast<float>(poisson(rng, 3.));
                    q = static_cast<float>(0.05 + 4 * rng.unit());
                    break;
                  case 3: // counts, estimate with zeros (quotient truncated to 10^4) and negatives
                    y = static_cast<float>(poisson(rng, 2.));
                    q = rng.range(0, 2) == 0 ? 0.F : (rng.range(0, 3) == 0 ? -static_cast<float>(rng.unit()) : static_cast<float>(0.05 + 4 * rng.unit()));
                    break;
                  case 4: // tiny and negative numerators (far below max * 1e-6), estimate far below y / 10^4
                    {
                      const int u = rng.range(0, 4);
                      y = u == 0 ? 0.F : (u == 1 ? 1e-9F * static_cast<float>(1 + rng.unit()) : (u == 2 ? -static_cast<float>(rng.unit()) : static_cast<float>(1 + poisson(rng, 4.))));
                      q = rng.range(0, 2) == 0 ? 1e-7F * static_cast<float>(1 + rng.unit()) : static_cast<float>(0.05 + 4 * rng.unit());
                    }
                    break;
                  default: // only non-positive numerators (the threshold max * 1e-6 is clamped to 0)
                    y = rng.coin() ? 0.F : -static_cast<float>(rng.unit());
                    q = static_cast<float>(-1 + 3 * rng.unit());
                  }
                (*ni)[ax][tang] = y;
                (*di)[ax][tang] = q;
              }
      }
      const RelatedViewgrams<float> orig = num;
      int count1 = 0, count2 = 0;
      double ll = 0;
      divide_and_truncate(num, den, 0, count1, count2, (t & 1) ? &ll : nullptr);
      ++g_checks;
      if (!std::isfinite(ll))
        oracle_fail("divide_and_truncate: log-likelihood contribution not finite, style " + std::to_string(style));
      RelatedViewgrams<float>::const_iterator oi = orig.begin(), di = den.begin();
      for (RelatedViewgrams<float>::const_iterator ni = num.begin(); ni != num.end(); ++ni, ++oi, ++di)
        {
          Vec y, q, r;
          float ymax = -std::numeric_limits<float>::infinity();
          for (int ax = ni->get_min_axial_pos_num(); ax <= ni->get_max_axial_pos_num(); ++ax)
            for (int tang = ni->get_min_tangential_pos_num(); tang <= ni->get_max_tangential_pos_num(); ++tang)
              {
                y.push_back((*oi)[ax][tang]);
                q.push_back((*di)[ax][tang]);
                r.push_back((*ni)[ax][tang]);
                ymax = std::max(ymax, (*oi)[ax][tang]);
              }
          std::fprintf(g_ops, "dvt Y ");
          put_vec(g_ops, y);
          std::fprintf(g_ops, " D ");
          put_vec(g_ops, q);
          std::fprintf(g_ops, "\n");
          put_vec(g_out, r);
          std::fprintf(g_out, "\n");
          g_cov["divide_and_truncate_viewgrams"]++;
          if (style == 0)
            g_cov["divide_and_truncate_viewgrams_all_zero"]++;
          ++g_checks;
          const double small = std::max(static_cast<double>(ymax) * 1e-6, 0.);
          for (std::size_t i = 0; i < y.size(); ++i)
            {
              bool ok = r[i] >= 0 && r[i] <= 10000.F; // (false for a NaN)
              if (y[i] == 0.F)
                ok = ok && r[i] == 0.F; // 0 / anything, 0/0 included
              else if (y[i] > 2 * small && y[i] < 9999. * q[i])
                ok = ok && std::fabs(r[i] - static_cast<double>(y[i]) / q[i]) <= 4 * std::ldexp(1., -24) * (static_cast<double>(y[i]) / q[i]);
              if (!ok)
                {
                  oracle_fail("divide_and_truncate: bin with numerator " + vh::hex(y[i]) + ", denominator " + vh::hex(q[i]) + " (viewgram maximum "
                              + vh::hex(ymax) + ") gives " + vh::hex(r[i]) + ": not a quotient in [0, 10^4] / not 0 for a bin without counts / not y/ybar");
                  break;
                }
            }
        }
    }
}

// ------------------------------------------------------------------------------------------------ synthetic stream
class SynthPrior : public GeneralisedPrior<TargetT>
{
public:
  SynthPrior() { this->penalisation_factor = 1.F; }
  std::string get_registered_name() const override { return "verif synthetic prior"; }
  Vec grad;
  double compute_value(const TargetT&) override { return 0.; }
  void compute_gradient(TargetT& out, const TargetT&) override { from_vec(out, grad); }
  bool is_convex() const override { return true; }
  Succeeded set_up(shared_ptr<const TargetT> const& t) override { return GeneralisedPrior<TargetT>::set_up(t); }
};

class SynthRecon : public OSMAPOSLReconstruction<TargetT>
{
public:
  Vec gps;
  shared_ptr<TargetT> sens;
  int last_subset = -1;

protected:
  void compute_sub_gradient_without_penalty_plus_sensitivity(TargetT& gradient, const TargetT&, const int subset_num) override
  {
    last_subset = subset_num;
    from_vec(gradient, gps);
  }
  const TargetT& get_subset_sensitivity(const int) override { return *sens; }
};

static float
synth_value(vh::Rng& rng, int style)
{
  switch (style)
    {
    case 0:
      return static_cast<float>(0.1 + 3 * rng.unit());
    case 1:
      return 0.F;
    case 2:
      return static_cast<float>(std::ldexp(1 + rng.unit(), -rng.range(8, 40)));
    case 3:
      return -static_cast<float>(0.1 + 3 * rng.unit());
    default:
      return static_cast<float>(std::ldexp(1 + rng.unit(), rng.range(-6, 6)));
    }
}

static void
run_synth_case(const Geo& g, const Data& d, vh::Rng& rng, int steps, const std::vector<int>& legal)
{
  RunCfg c;
  c.nsub = legal[rng.range(0, static_cast<int>(legal.size()) - 1)];
  c.start_subset = rng.range(0, c.nsub - 1);
  c.N = steps;
  c.enforce = rng.coin();
  const int mapsel = rng.range(0, 2);
  c.prior = mapsel == 0 ? 0 : 1;
  c.map = mapsel == 2 ? 2 : 1;
  c.clamps = rng.range(0, 2) == 0;
  if (c.clamps)
    {
      c.minrel = 0.125 * rng.range(0, 6);
      c.maxrel = 1. + 0.25 * rng.range(0, 12);
    }
  const bool hostile = rng.range(0, 3) == 0; // negatives, s = 0 with g != 0 (non-finite quotients)
  shared_ptr<ObjT> obj = make_obj(g, d, RunCfg());
  shared_ptr<SynthPrior> prior(new SynthPrior);
  prior->grad.assign(g.nvox, 0.F);
  if (c.prior_active())
    obj->set_prior_sptr(prior);
  SynthRecon recon;
  Objects dummy;
  configure_recon(recon, obj, c, dummy, 1, c.N, "");
  recon.sens.reset(g.tmpl->get_empty_copy());
  recon.gps.assign(g.nvox, 0.F);
  shared_ptr<TargetT> image(g.tmpl->clone());
  Vec start(g.nvox);
  for (int j = 0; j < g.nvox; ++j)
    start[j] = synth_value(rng, hostile ? rng.range(0, 4) : (rng.range(0, 5) == 0 ? 1 : 0));
  from_vec(*image, start);
  put_cfg("synth", g.nvox, c);
  g_cov["synth_cases"]++;
  try
    {
      if (recon.set_up(image) != Succeeded::yes)
        throw std::runtime_error("set_up");
    }
  catch (std::exception&)
    {
      g_cov["synth_setup_refused"]++;
      return;
    }
  std::fprintf(g_ops, "setup V ");
  put_vec(g_ops, start);
  std::fprintf(g_ops, "\n");
  put_vec(g_out, to_vec(*image));
  std::fprintf(g_out, "\n");
  for (int k = 1; k <= c.N; ++k)
    {
      const Vec before = to_vec(*image);
      Vec sens(g.nvox), pg(g.nvox);
      for (int j = 0; j < g.nvox; ++j)
        {
          const int sstyle = hostile ? rng.range(0, 4) : (rng.range(0, 4) == 0 ? rng.range(1, 2) : rng.range(0, 1) * 4);
          sens[j] = synth_value(rng, sstyle);
          // numerator: consistent with the sensitivity (zero where it is zero) unless hostile
          int gstyle = rng.range(0, 6) == 0 ? 2 : (rng.range(0, 5) == 0 ? 1 : 0);
          if (!hostile && sens[j] == 0.F)
            gstyle = 1;
          if (hostile)
            gstyle = rng.range(0, 4);
          recon.gps[j] = synth_value(rng, gstyle);
          // prior gradient: around the clamp boundaries of both MAP models, relative to the sensitivity
          const double scale = c.map == 1 ? std::fabs(sens[j]) * c.nsub : 1.;
          const double r = rng.range(0, 3) == 0 ? (rng.coin() ? 9 : -0.9) * (0.9 + 0.2 * rng.unit()) : -2 + 14 * rng.unit();
          pg[j] = static_cast<float>(r * scale);
        }
      from_vec(*recon.sens, sens);
      prior->grad = pg;
      recon.set_start_subiteration_num(k);
      recon.set_num_subiterations(k);
      recon.reconstruct(image);
      const Vec after = to_vec(*image);
      // the subset the class asked its hook for is the subset of the schedule
      ++g_checks;
      if (recon.last_subset != expected_subset(c, k))
        oracle_fail("schedule: sub-iteration " + std::to_string(k) + " used subset " + std::to_string(recon.last_subset));
      put_upd(k, expected_subset(c, k), before, recon.gps, sens, c.prior_active() ? &pg : nullptr, nullptr, after, nullptr, after);
      g_cov["synth_subiterations"]++;
      if (!all_finite(after))
        {
          g_cov["synth_nonfinite"]++;
          break;
        }
      // ORACLE (nonneg) when everything fed in is non-negative and consistent
      if (!hostile && all_nonneg(before))
        {
          ++g_checks;
          if (!all_nonneg(after))
            oracle_fail("nonneg (synthetic data) k=" + std::to_string(k) + ": " + first_not_nonneg(after));
        }
    }
}

// ------------------------------------------------------------------------------------------------ set_up-only stream
// what OSMAPOSLReconstruction::set_up does to start images of every kind (all positive, zeros, negatives, nothing positive)
static void
run_setup_case(const Geo& g, const Data& d, vh::Rng& rng)
{
  RunCfg c;
  c.enforce = rng.range(0, 4) != 0;
  const int kind = rng.range(0, 4);
  Vec start(g.nvox);
  for (int j = 0; j < g.nvox; ++j)
    switch (kind)
      {
      case 0:
        start[j] = synth_value(rng, 0);
        break;
      case 1:
        start[j] = synth_value(rng, rng.range(0, 1));
        break;
      case 2:
        start[j] = synth_value(rng, rng.range(0, 4));
        break;
      case 3:
        start[j] = rng.coin() ? 0.F : synth_value(rng, 3);
        break;
      default:
        start[j] = 0.F;
      }
  Objects o = build(g, d, c, 1, 1, "");
  shared_ptr<TargetT> image(g.tmpl->clone());
  from_vec(*image, start);
  put_cfg("setup", g.nvox, c);
  try
    {
      if (o.recon->set_up(image) != Succeeded::yes)
        return;
    }
  catch (std::exception&)
    {
      return;
    }
  std::fprintf(g_ops, "setup V ");
  put_vec(g_ops, start);
  std::fprintf(g_ops, "\n");
  const Vec after = to_vec(*image);
  put_vec(g_out, after);
  std::fprintf(g_out, "\n");
  g_cov[std::string("setup_only_kind") + std::to_string(kind)]++;
  ++g_checks;
  bool ok = true;
  for (int j = 0; j < g.nvox; ++j)
    ok = ok && (c.enforce ? (after[j] > 0 && (start[j] <= 0 || after[j] == start[j])) : after[j] == start[j]);
  if (!ok)
    oracle_fail("setup-positivity (setup-only stream) kind=" + std::to_string(kind));
}

// ------------------------------------------------------------------------------------------------ malformed stream
// parameter ranges: set_up (or the setter) must refuse exactly the configurations the documentation excludes
static void
run_range_cases(const Geo& g, const Data& d, vh::Rng& rng, const std::vector<int>& legal, int count)
{
  for (int t = 0; t < count; ++t)
    {
      const int bad = rng.range(0, 8); // which parameter is pushed out of range (8: none)
      int ns = legal[rng.range(0, static_cast<int>(legal.size()) - 1)];
      int N = rng.range(1, 4);
      int ss = rng.range(0, ns - 1), start = rng.range(1, N + 1), save = rng.range(1, N), ii = rng.range(0, 2), iu = rng.range(0, 2);
      switch (bad)
        {
        case 0:
          ns = -rng.range(0, 1);
          ss = 0;
          break;
        case 1:
          N = -rng.range(0, 1);
          save = 1;
          break;
        case 2:
          ss = rng.coin() ? -1 : ns + rng.range(0, 1);
          break;
        case 3:
          start = -rng.range(0, 1);
          break;
        case 4:
          save = rng.coin() ? 0 : N + 1;
          break;
        case 5:
          ii = -1;
          break;
        case 6:
          iu = -1;
          break;
        case 7: // boundary values that are legal
          ss = ns - 1;
          save = N;
          start = N + 1;
          break;
        default:
          break;
        }
      bool ok = true;
      try
        {
          shared_ptr<ObjT> obj = make_obj(g, d, RunCfg());
          OSMAPOSLReconstruction<TargetT> r;
          r.set_objective_function_sptr(obj);
          r.set_num_subsets(ns);
          r.set_start_subset_num(ss);
          r.set_num_subiterations(N);
          r.set_start_subiteration_num(start);
          r.set_save_interval(save);
          r.set_inter_iteration_filter_interval(ii);
          r.set_inter_update_filter_interval(iu);
          r.set_disable_output(true);
          shared_ptr<TargetT> im(g.tmpl->clone());
          im->fill(1.F);
          ok = r.set_up(im) == Succeeded::yes;
        }
      catch (std::exception&)
        {
          ok = false;
        }
      std::fprintf(g_ops, "chk %d %d %d %d %d %d %d\n", ns, ss, N, start, save, ii, iu);
      std::fprintf(g_out, "%s\n", ok ? "ok" : "err");
      g_cov[ok ? "range_cases_accepted" : "range_cases_refused"]++;
    }
}

// ------------------------------------------------------------------------------------------------ restart witness
// Deterministic minimal reproduction of the restart finding on the real class (the counterpart of
// `C07_restart_fails_with_enforced_positivity` / `C07_restart_fails_zero_subset_sensitivity` in
// lean/StirVerif/C07/Props.lean), everything at its default and NO special data:
// 8 detectors x 2 rings, span 1, 5x5x3 image, ray-tracing matrix, the smallest number of subsets > 1 the library accepts,
// subset sensitivities, no prior, no filter, enforce_initial_positivity = true in BOTH runs, uniform start image 1,
// 2 counts in every bin.
// The voxels that subset 0 does not see have subset sensitivity 0 and become exactly 0 in sub-iteration 1 ("zero where the
// subset sensitivity s_S is zero") and stay 0 in the uninterrupted run; the run resumed at sub-iteration 2 from the saved
// image 1 lifts them in set_up, and subset 1 (which sees some of them) updates the lifted values.
// The resumed run with the option switched off must reproduce the uninterrupted run bitwise (judged strictly).
static void
run_restart_witness()
{
  Geo g = make_geo(8, 2, 5, 0);
  Data d;
  d.has_add = d.has_norm = false;
  const std::size_t nb = g.bins.size();
  d.y.assign(nb, 2.);
  d.add.assign(nb, 0.);
  d.eff.assign(nb, 1.);
  d.y_pd = make_pd(g, d.y);
  const std::vector<int> legal = legal_subset_numbers(g, d);
  int nsub = 0;
  for (int n : legal)
    if (n > 1 && nsub == 0)
      nsub = n;
  if (nsub == 0)
    return;
  RunCfg c;
  c.nsub = nsub;
  c.N = 2;
  const std::string prefU = g_outdir + "/witness_u", prefR = g_outdir + "/witness_r", prefO = g_outdir + "/witness_o";
  ++g_checks;
  g_cov["restart_witness_runs"]++;
  try
    {
      Objects U = build(g, d, c, 1, 2, prefU);
      shared_ptr<TargetT> imu(g.tmpl->clone());
      imu->fill(1.F);
      if (U.recon->set_up(imu) != Succeeded::yes)
        throw std::runtime_error("set_up (uninterrupted)");
      U.recon->reconstruct(imu);
      const Vec u1 = read_image(prefU + "_1.hv"), u2 = read_image(prefU + "_2.hv");
      // resumed with the configuration of the uninterrupted run (option on)
      Objects R = build(g, d, c, 2, 2, prefR);
      shared_ptr<TargetT> imr(read_from_file<TargetT>(prefU + "_1.hv"));
      if (R.recon->set_up(imr) != Succeeded::yes)
        throw std::runtime_error("set_up (resumed)");
      const Vec lifted = to_vec(*imr);
      R.recon->reconstruct(imr);
      const Vec r2 = read_image(prefR + "_2.hv");
      // resumed with the option off: the state is (image_1, 1) only
      RunCfg coff = c;
      coff.enforce = false;
      Objects O = build(g, d, coff, 2, 2, prefO);
      shared_ptr<TargetT> imo(read_from_file<TargetT>(prefU + "_1.hv"));
      if (O.recon->set_up(imo) != Succeeded::yes)
        throw std::runtime_error("set_up (resumed, option off)");
      O.recon->reconstruct(imo);
      ++g_checks;
      if (!bitwise_equal(read_image(prefO + "_2.hv"), u2))
        oracle_fail("restart witness: resumed run with enforce_initial_positivity off differs from the uninterrupted run");
      int zeros = 0, positive = 0, differ = 0, ex = -1;
      bool only_lifted = true; // every voxel that set_up changed was an exact zero of image 1
      for (int j = 0; j < g.nvox; ++j)
        {
          zeros += u1[j] == 0.F;
          positive += u1[j] > 0.F;
          if (std::memcmp(&u1[j], &lifted[j], sizeof(float)) != 0 && u1[j] != 0.F)
            only_lifted = false;
          if (std::memcmp(&u2[j], &r2[j], sizeof(float)) != 0)
            {
              ++differ;
              if (ex < 0 && u1[j] == 0.F)
                ex = j;
            }
        }
      g_cov["restart_witness_zero_voxels_after_1"] += zeros;
      g_cov["restart_witness_positive_voxels_after_1"] += positive;
      g_cov["restart_witness_differing_voxels_in_2"] += differ;
      if (differ > 0 && ex >= 0 && only_lifted && !bitwise_equal(u1, lifted))
        known_restart_finding("witness: 8 detectors x 2 rings, 5x5x3 image, " + std::to_string(nsub)
                              + " subsets, uniform start image 1, 2 counts in every bin, all options at their defaults: image 1 has "
                              + std::to_string(zeros) + " exact zeros (voxels with zero sensitivity in subset 0) and "
                              + std::to_string(positive) + " positive voxels, " + std::to_string(differ)
                              + " voxels of image 2 differ, e.g. voxel " + std::to_string(ex) + ": uninterrupted " + vh::hex(u2[ex])
                              + ", resumed " + vh::hex(r2[ex]) + " (set_up made it " + vh::hex(lifted[ex])
                              + "); resumed with the option off: bitwise equal");
      else if (differ > 0)
        oracle_fail("restart witness: resumed run differs from the uninterrupted run, but not through lifted zeros");
    }
  catch (std::exception& e)
    {
      oracle_fail(std::string("restart witness failed to run: ") + e.what());
    }
}

// ------------------------------------------------------------------------------------------------ main
int
main(int argc, char** argv)
{
  if (argc < 5)
    return 2;
  vh::quiet();
  const unsigned long long seed = std::strtoull(argv[1], nullptr, 10);
  vh::Rng rng(seed * 1315423911ULL + 7);
  const bool thorough = std::string(argv[2]) == "thorough";
  g_ops = std::fopen(argv[3], "w");
  g_out = std::fopen(argv[4], "w");
  g_orc = std::fopen((std::string(argv[4]) + ".oracle").c_str(), "w");
  { // scratch files go next to the ops file (<build>/out/c07), whatever build directory the check uses
    const std::string opsfile = argv[3];
    const std::string::size_type slash = opsfile.rfind('/');
    g_outdir = (slash == std::string::npos ? std::string(".") : opsfile.substr(0, slash)) + "/c07";
  }
  ::mkdir(g_outdir.c_str(), 0777);
  g_outdir += "/s" + std::to_string(seed) + (thorough ? "t" : "q");
  ::mkdir(g_outdir.c_str(), 0777);
  { // stale files of an earlier run with the same seed must not be mistaken for saved iterates
    if (DIR* dir = ::opendir(g_outdir.c_str()))
      {
        std::vector<std::string> names;
        while (struct dirent* e = ::readdir(dir))
          if (e->d_name[0] != '.')
            names.push_back(e->d_name);
        ::closedir(dir);
        for (auto& n : names)
          ::unlink((g_outdir + "/" + n).c_str());
      }
  }

  run_restart_witness();

  vh::Rng frng(seed * 2654435761ULL + 77); // filter / data-processor / viewgram streams
  int filter_case_no = 0;
  const int ngeo = thorough ? 28 : 8; // (thorough: 28 geometries x 4 data sets x all legal subset numbers x 3 variants, all with restarts)
  int case_no = 0;
  for (int gi = 0; gi < ngeo; ++gi)
    {
      const int N = 2 * rng.range(4, 6);        // 8, 10, 12 detectors per ring
      const int R = rng.range(2, 3);            // rings
      const int nxy = rng.range(5, 7);          // image 5..7 across
      const int symflags = rng.range(0, 7);
      // geometry style: 0 span 1 (as before), 1 span 3, 2 view mashing, 3 time-of-flight (3 TOF bins); styles 1-3 also combined
      const int style = gi % 4;
      int span = 1, mash = 1, tofbins = 0, Ng = N, Rg = R;
      if (style == 1 || (style != 0 && rng.range(0, 3) == 0))
        {
          span = 3;
          Rg = rng.range(3, 4);
        }
      if (style == 2 || (style != 0 && rng.range(0, 3) == 0))
        {
          mash = 2;
          Ng = 4 * rng.range(2, 4); // 8, 12, 16 detectors per ring: 2, 3, 4 views
        }
      if (style == 3)
        tofbins = rng.range(0, 2) == 0 ? 5 : 3;
      Geo g = make_geo(Ng, Rg, nxy, symflags, span, mash, tofbins);
      const int views = g.views;
      if (!g.tof)
        put_mat(g);
      g_cov["geometries"]++;
      g_cov["geometries_span" + std::to_string(span)]++;
      g_cov["geometries_view_mash" + std::to_string(mash)]++;
      g_cov[std::string("geometries_tof") + (g.tof ? "1" : "0")]++;
      for (int di = 0; di < (thorough ? 4 : 3); ++di)
        {
          const bool has_add = (di & 1) != 0 ? true : rng.range(0, 3) == 0;
          const bool has_norm = rng.coin() && !g.tof; // (a norm for TOF data needs `use time-of-flight sensitivities`)
          const bool sparse = !has_add && rng.range(0, 2) == 0;
          const double level = sparse ? 0.6 : (rng.range(0, 2) == 0 ? 0.5 : 4.);
          Data d = make_data(g, rng, has_add, has_norm, level, sparse);
          g_cov[std::string("data_add") + (has_add ? "1" : "0") + "_norm" + (has_norm ? "1" : "0")]++;
          if (!g.tof)
            put_dat(g, d);
          // every number of subsets 1..views that the library accepts (it refuses unbalanced subsets)
          const std::vector<int> legal = legal_subset_numbers(g, d);
          g_cov["illegal_subset_numbers"] += views - static_cast<int>(legal.size());
          if (di == 0)
            { // the refusal itself, every number of subsets 1..views+1: OSMAPOSL::set_up accepts exactly the balanced ones
              // (operation `bal` for the model: symmetries of the projector as requested, number of views, TOF -> decision)
              for (int nsub = 1; nsub <= views + 1; ++nsub)
                {
                  const bool is_legal = std::find(legal.begin(), legal.end(), nsub) != legal.end();
                  RunCfg c;
                  c.nsub = nsub;
                  bool refused = false;
                  try
                    {
                      Objects o = build(g, d, c, 1, 1, "");
                      shared_ptr<TargetT> im(g.tmpl->clone());
                      im->fill(1.F);
                      refused = o.recon->set_up(im) != Succeeded::yes;
                    }
                  catch (std::exception&)
                    {
                      refused = true;
                    }
                  // (view mashing gives view 0 an azimuthal offset: the projector then drops its view symmetries)
                  const bool phi_offset = std::fabs(g.pdi->get_phi(Bin(0, 0, 0, 0))) > 1.E-4F;
                  std::fprintf(g_ops, "bal %d %d %d %d %d %d %d %d %d %d\n", g.views, (symflags & 1) ? 1 : 0, (symflags & 2) ? 1 : 0,
                               (symflags & 4) ? 1 : 0, g.tof ? 1 : 0, phi_offset ? 1 : 0, g.pdi->get_min_view_num(), g.pdi->get_max_view_num(),
                               g.pdi->get_max_segment_num(), nsub);
                  std::fprintf(g_out, "%s\n", refused ? "err" : "ok");
                  g_cov[refused ? "subset_numbers_refused" : "subset_numbers_accepted"]++;
                  ++g_checks;
                  if (refused == is_legal)
                    oracle_fail(std::string("set_up ") + (refused ? "refused balanced" : "accepted unbalanced") + " subsets, nsub="
                                + std::to_string(nsub) + " views=" + std::to_string(g.views));
                }
            }
          for (int nsub : legal)
            {
              const int variants = nsub == 1 ? 3 : (thorough ? 3 : 2);
              for (int v = 0; v < variants; ++v)
                {
                  RunCfg c;
                  c.nsub = nsub;
                  c.start_subset = rng.range(0, nsub - 1);
                  const int full = thorough ? rng.range(1, 3) : rng.range(1, 2);
                  c.N = std::min(nsub * full + rng.range(0, nsub - 1), thorough ? 18 : 9);
                  c.use_subset_sens = rng.range(0, 3) != 0;
                  c.enforce = rng.range(0, 3) != 0;
                  // `zero end planes of segment 0`: plain EM variant: a fixed pattern over (geometry, data set), so that every
                  // geometry style (span 1 / span 3 / view mashing / TOF) meets it with 1 and with several subsets; others: 1 in 3
                  c.zero_end = v == 0 ? ((gi / 4 + gi + di) % 2 == 0) : rng.range(0, 2) == 0;
                  // v = 0: plain EM (formula, counts, monotone clauses); others: priors, clamps, filters
                  if (v > 0)
                    {
                      const int p = rng.range(0, 4);
                      c.prior = p == 4 ? 3 : (p == 0 ? 0 : 1 + (p & 1));
                      c.map = rng.range(1, 2);
                      c.beta = static_cast<float>(rng.range(0, 2) == 0 ? 5. : 0.3 + rng.unit());
                      if (rng.range(0, 3) == 0)
                        {
                          c.clamps = true;
                          c.minrel = 0.25 * rng.range(0, 3);
                          c.maxrel = 1. + 0.25 * rng.range(0, 8);
                        }
                      if (rng.range(0, 3) == 0)
                        {
                          c.iuf = rng.range(1, 3);
                          c.iuf_shift = static_cast<float>(0.3 * rng.unit());
                        }
                      if (rng.range(0, 3) == 0)
                        {
                          c.iif = rng.range(1, 3);
                          c.iif_shift = static_cast<float>(0.3 * rng.unit());
                        }
                      if (rng.range(0, 5) == 0)
                        c.max_seg = rng.range(0, g.pdi->get_max_segment_num());
                    }
                  if (c.N >= 3 && rng.range(0, 3) == 0)
                    c.save_interval = rng.range(2, std::min(c.N, 4));
                  if (rng.range(0, 2) == 0)
                    { // a post-filter (output with non-positive values: nothing is chained behind it)
                      c.post = true;
                      c.post_shift = static_cast<float>(0.4 * rng.unit());
                    }
                  const bool do_restart = thorough || v == 0 || rng.range(0, 1) == 0;
                  run_real_case("c" + std::to_string(case_no++) + "sp" + std::to_string(g.span) + "m" + std::to_string(g.mash) + (g.tof ? "tof" : ""), g, d, c, rng, do_restart, legal, thorough || v == 0 || rng.range(0, 1) == 0);
                }
            }
          const int nsynth = thorough ? 30 : 10;
          for (int s = 0; s < nsynth; ++s)
            run_synth_case(g, d, rng, rng.range(2, 4), legal);
          for (int s = 0; s < (thorough ? 16 : 8); ++s)
            run_setup_case(g, d, rng);
          if (di == 0)
            run_range_cases(g, d, rng, legal, thorough ? 40 : 20);
          // filter stream (its own random stream: the cases above are those of the earlier rounds)
          for (int s = 0; s < (thorough ? 8 : 3); ++s)
            run_filter_case("f" + std::to_string(filter_case_no++) + "sp" + std::to_string(g.span) + "m" + std::to_string(g.mash) + (g.tof ? "tof" : ""), g, d,
                            frng, legal, thorough);
        }
      run_flt_cases(g, frng, thorough ? 24 : 9);
      run_divide_cases(g, frng, thorough ? 24 : 12);
    }

  for (auto& kv : g_cov)
    std::fprintf(g_orc, "COVERAGE %s %ld\n", kv.first.c_str(), kv.second);
  std::fprintf(g_orc, "ORACLE-DONE checks=%ld fails=%ld\n", g_checks, g_fails);
  std::fclose(g_ops);
  std::fclose(g_out);
  std::fclose(g_orc);
  return 0;
}
