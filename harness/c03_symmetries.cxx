// C03 — implementation side: system-matrix rows do not depend on symmetries, caching or request history.
//
// Drives the REAL classes
//   DataSymmetriesForBins_PET_CartesianGrid::{ctor, find_basic_bin, find_symmetry_operation_from_basic_bin, accessors}
//   SymmetryOperation::{transform_bin_coordinates, transform_view_segment_indices, transform_image_coordinates,
//                       transform_proj_matrix_elems_for_one_bin, is_trivial}
//   ProjMatrixByBinUsingRayTracing::{set_do_symmetry_*, set_num_tangential_LORs, set_restrict_to_cylindrical_FOV,
//                       set_use_actual_detector_boundaries, set_up, enable_cache, store_only_basic_bins_in_cache, clear_cache,
//                       get_proj_matrix_elems_for_one_bin (incl. apply_tof_kernel for TOF data)}
//   ProjMatrixByBinUsingInterpolation::{parse (the five symmetry switches), set_up, enable_cache, ..., get_proj_matrix_elems_for_one_bin}
//   ProjMatrixElemsForOneBin::{merge, sort}
// on small generated cylindrical geometries (span 1/2/3/4, outer segments cut off by max_delta, view mashing, TOF with and
// without TOF mashing, arc correction, odd/even and anisotropic images, finer z sampling, shifted origins, data with
// reduced index ranges).
//
// Usage: c03_symmetries <seed> <quick|thorough> <opsfile> <implfile>
//  section A (ops `cfg`, `sym`)  : every bin x all 32 switch combinations, compared with the Lean model line by line
//                                  (+ bins with timing position != 0 on non-TOF data: the timing-position swap of the operations)
//  section B (ops `p*`)          : request histories on one matrix object (`pnew 0`: ray tracing, `pnew 1`: interpolation);
//                                  rows compared exactly with the model and, in the oracle, with a new matrix of the same
//                                  class without symmetries and without cache; before them two probes (set_up for a
//                                  second geometry on one object against a new object)
//  section C (oracle only)       : every bin x 32 switch combinations x 3 cache modes x {ray tracing: number of tangential
//                                  rays x FOV shape x use_actual_detector_boundaries; interpolation} against the
//                                  no-symmetry/no-cache row (the property's own statement)
//  section D (op `merge`)        : ProjMatrixElemsForOneBin::merge against the pointwise sum
//  section E (oracle only)       : set_up again for an image that differs in its index range only, all bins, 3 cache modes
//  section F (ops `p*`)          : set_up again, on one object, for data CONTAINED in the previous data (clone with reduced axial /
//                                  tangential / segment ranges, same image), containing them or overlapping with them; every row
//                                  afterwards against the model and a new matrix, 3 cache modes
// Geometries with x voxel size != y voxel size in either direction (differences on both sides of the 2e-3 mm threshold of
// the constructor's guard) on data for which the x/y exchanging symmetries can be in force run through sections A and C;
// the voxel sizes go to the model as hex floats and the model evaluates the guard.
// Diagnostics: C03_FAIL_CLASSES=1 prints every ORACLE-FAIL line and a histogram of failing configurations;
//              C03_ALLFLAGS=1 sweeps all 32 switch combinations for the interpolating matrix on the special geometries.
#include "stir_fixtures.h"
#include "common.h"
#include "stir/recon_buildblock/DataSymmetriesForBins_PET_CartesianGrid.h"
#include "stir/recon_buildblock/SymmetryOperation.h"
#include "stir/recon_buildblock/ProjMatrixByBinUsingRayTracing.h"
#include "stir/recon_buildblock/ProjMatrixByBinUsingInterpolation.h"
#include "stir/ProjDataInfoCylindricalNoArcCorr.h"
#include "stir/recon_buildblock/ProjMatrixElemsForOneBin.h"
#include "stir/ProjDataInfoCylindrical.h"
#include "stir/ViewSegmentNumbers.h"
#include "stir/Bin.h"
#include "stir/IndexRange3D.h"
#include <algorithm>
#include <cmath>
#include <map>
#include <set>
#include <tuple>

using namespace stir;

static FILE *ops, *out, *orc;
static long oracle_checks = 0, oracle_fails = 0, oracle_screened = 0, known_hits = 0, rows_nonempty = 0, rows_elements = 0;
static std::set<std::string> known_emitted;
static std::map<std::string, long> histo;

static void
oracle_fail(const std::string& text)
{
  ++oracle_fails;
  if (oracle_fails <= (std::getenv("C03_FAIL_CLASSES") ? 1000000 : 40))
    std::fprintf(orc, "ORACLE-FAIL %s\n", text.c_str());
}

static void
known_candidate(const std::string& key, const std::string& text)
{
  ++known_hits;
  if (known_emitted.insert(key).second)
    std::fprintf(orc, "KNOWN-CANDIDATE %s %s\n", key.c_str(), text.c_str());
}

// ------------------------------------------------------------------------------------------------ geometries

struct GeoSpec
{
  int N = 16, R = 3, span = 1, max_delta = 2, mash = 1, ntang = 7;
  bool arc = false;
  int tof_bins = 0; // 0: non-TOF; otherwise the number of timing positions of the scanner
  int tof_mash = 1; // TOF mashing factor of the data (tof_bins / tof_mash timing positions, an odd number)
  float tilt = 0.F;
  float zoom = 1.F;  // x voxel size = central tangential sampling / zoom
  float aniso = 1.F; // y voxel size = x voxel size * aniso
  bool same_nxy = false; // as many voxels in y as in x even if the y voxels are smaller (the image then ends first in y)
  int nx = 0, ny = 0; // 0: odd size just covering all tangential positions
  int dnx = 0, dny = 0; // added to the automatic size (negative: the FOV cuts off outer tangential positions)
  int m = 1;                  // z voxel size = axial sampling of segment 0 / m
  int extra_lo = 0, extra_hi = 0; // planes added below / above the planes needed to reach the outer ring centres
  int minz = 0;
  float origin_planes = 0.F; // z origin in planes (a whole number unless testing the error branch)
  float origin_x = 0.F;
  float dxy = 0.F; // added to the y voxel size (mm): differences around the threshold (2e-3 mm) of the constructor's x/y guard
  // data CONTAINED in the data of the same spec without these reductions (ProjDataInfo::operator>=): a clone with reduced
  // index ranges.  The image is laid out for the unreduced data, so the two geometries share the image grid.
  int trim_seg = -1;            // axial range reduced in segments +-trim_seg (-1: in all segments)
  int trim_lo = 0, trim_hi = 0; // axial positions removed at the lower / upper end (set_min_/set_max_axial_pos_num)
  int seg_cut = 0;              // outer segment pairs removed (reduce_segment_range)
  int tang_lo = 0, tang_hi = 0; // tangential positions removed at the lower / upper end
  bool reduced() const { return trim_lo || trim_hi || seg_cut || tang_lo || tang_hi; }
};

struct Geo
{
  GeoSpec sp;
  int id = 0;
  int eqclass = 0; // id of the first geometry that set_up cannot tell apart from this one: equal projection data info,
                   // voxel size, origin and index range of the image (the model's notion of "same geometry")
  shared_ptr<ProjDataInfo> pdi;
  shared_ptr<VoxelsOnCartesianGrid<float>> image;
  const ProjDataInfoCylindrical* cyl = nullptr;
  int V, min_seg, max_seg, min_tang, max_tang, min_tof, max_tof, minz, maxz, miny, maxy, minx, maxx;
  float vz, vx, vy;
  std::string tokens;
  std::vector<Bin> bins;
};

static std::vector<shared_ptr<Geo>> all_geos;

static bool
same_data_voxel_origin(const Geo& a, const Geo& b);
static bool
same_index_range(const Geo& a, const Geo& b);

static shared_ptr<Geo>
build_geo(const GeoSpec& sp, int id)
{
  shared_ptr<Geo> g(new Geo);
  g->sp = sp;
  g->id = id;
  shared_ptr<Scanner> scanner = vh::make_scanner(sp.N, sp.R, sp.tof_bins > 0 ? sp.tof_bins : -1);
  if (sp.tilt != 0.F)
    scanner->set_intrinsic_azimuthal_tilt(sp.tilt);
  g->pdi = vh::make_pdi(scanner, sp.span, sp.max_delta, sp.N / 2 / sp.mash, sp.ntang, sp.arc, sp.tof_bins > 0 ? sp.tof_mash : 0);
  g->cyl = dynamic_cast<const ProjDataInfoCylindrical*>(g->pdi.get());
  // the image is laid out for the unreduced data
  const ProjDataInfo& base = *g->pdi;
  const int base_min_tang = base.get_min_tangential_pos_num(), base_max_tang = base.get_max_tangential_pos_num();
  const float base_sampling_s = base.get_sampling_in_s(Bin(0, 0, 0, 0));
  const float max_s = std::max(std::fabs(base.get_s(Bin(0, 0, 0, base_max_tang))), std::fabs(base.get_s(Bin(0, 0, 0, base_min_tang))));
  const float base_axial_sampling0 = g->cyl->get_axial_sampling(0);
  shared_ptr<const ProjDataInfo> base_keepalive = g->pdi; // (`base` stays valid below)
  if (sp.reduced())
    {
      shared_ptr<ProjDataInfo> q(base.clone());
      // (segment 0 always stays)
      const int cut = std::min(sp.seg_cut, std::min(q->get_max_segment_num(), -q->get_min_segment_num()));
      if (cut > 0)
        q->reduce_segment_range(q->get_min_segment_num() + cut, q->get_max_segment_num() - cut);
      for (int s = q->get_min_segment_num(); s <= q->get_max_segment_num(); ++s)
        if (sp.trim_seg < 0 || std::abs(s) == sp.trim_seg)
          {
            // (never fewer than one axial position)
            const int lo = q->get_min_axial_pos_num(s) + sp.trim_lo, hi = q->get_max_axial_pos_num(s) - sp.trim_hi;
            if (lo > hi)
              continue;
            q->set_min_axial_pos_num(lo, s);
            q->set_max_axial_pos_num(hi, s);
          }
      q->set_min_tangential_pos_num(base_min_tang + sp.tang_lo);
      q->set_max_tangential_pos_num(base_max_tang - sp.tang_hi);
      g->pdi = q;
      g->cyl = dynamic_cast<const ProjDataInfoCylindrical*>(g->pdi.get());
    }
  const ProjDataInfo& p = *g->pdi;
  g->V = p.get_num_views();
  g->min_seg = p.get_min_segment_num();
  g->max_seg = p.get_max_segment_num();
  g->min_tang = p.get_min_tangential_pos_num();
  g->max_tang = p.get_max_tangential_pos_num();
  g->min_tof = p.get_min_tof_pos_num();
  g->max_tof = p.get_max_tof_pos_num();
  const float ring_spacing = scanner->get_ring_spacing();
  g->vz = base_axial_sampling0 / sp.m;
  const int nppr = static_cast<int>(std::lround(ring_spacing / g->vz));
  const int planes = (sp.R - 1) * nppr + 1 + sp.extra_lo + sp.extra_hi;
  g->minz = sp.minz;
  g->maxz = sp.minz + planes - 1;
  g->vx = base_sampling_s / sp.zoom;
  g->vy = g->vx * sp.aniso + sp.dxy;
  // (at least 2 voxels: the generated reductions dnx, dny must not leave an empty image)
  const int nx = std::max(2, (sp.nx > 0 ? sp.nx : 2 * static_cast<int>(std::ceil(max_s / g->vx)) + 1) + sp.dnx);
  const int ny = sp.same_nxy ? nx : std::max(2, (sp.ny > 0 ? sp.ny : 2 * static_cast<int>(std::ceil(max_s / g->vy)) + 1) + sp.dny);
  g->miny = -(ny / 2);
  g->maxy = g->miny + ny - 1;
  g->minx = -(nx / 2);
  g->maxx = g->minx + nx - 1;
  // physical alignment: middle of the image + origin = middle of the scanner.  Extra planes below/above are
  // compensated by the origin as far as a whole number of planes allows (for an odd difference the ring centres
  // fall between two planes), plus the requested origin shift.
  const float origin_z = (sp.origin_planes + (sp.extra_hi - sp.extra_lo) / 2) * g->vz;
  g->image.reset(new VoxelsOnCartesianGrid<float>(IndexRange3D(g->minz, g->maxz, g->miny, g->maxy, g->minx, g->maxx),
                                                   CartesianCoordinate3D<float>(origin_z, 0.F, sp.origin_x),
                                                   CartesianCoordinate3D<float>(g->vz, g->vy, g->vx)));
  std::ostringstream t;
  const int max_abs_ax0 = std::max(-p.get_min_axial_pos_num(0), p.get_max_axial_pos_num(0));
  const int max_abs_tang = std::max(-g->min_tang, g->max_tang);
  const int max_abs_tof = std::max(-g->min_tof, g->max_tof);
  // (the x/y voxel-size guard of the constructor is the model's: the voxel sizes go over as they are, y then x, then
  // the index ranges in y and x)
  t << g->V << " " << vh::hex(g->image->get_grid_spacing()[2]) << " " << vh::hex(g->image->get_grid_spacing()[3]) << " " << g->miny << " " << g->maxy << " "
    << g->minx << " " << g->maxx << " " << (std::fabs(p.get_phi(Bin(0, 0, 0, 0))) <= 1.E-4F ? 1 : 0) << " " << (sp.tof_bins > 0 ? 1 : 0)
    << " " << (sp.origin_x == 0.F ? 1 : 0) << " " << nppr << " " << g->min_seg << " " << g->max_seg << " " << g->minz << " " << g->maxz
    << " " << std::lround(4 * origin_z / g->vz) << " " << max_abs_ax0 << " " << max_abs_tang << " " << max_abs_tof;
  for (int s = g->min_seg; s <= g->max_seg; ++s)
    t << " " << std::lround(g->cyl->get_axial_sampling(s) / g->vz) << " " << std::lround(2 * g->cyl->get_average_ring_difference(s))
      << " " << p.get_min_axial_pos_num(s) << " " << p.get_max_axial_pos_num(s);
  g->tokens = t.str();
  for (int s = g->min_seg; s <= g->max_seg; ++s)
    for (int v = 0; v < g->V; ++v)
      for (int a = p.get_min_axial_pos_num(s); a <= p.get_max_axial_pos_num(s); ++a)
        for (int tp = g->min_tang; tp <= g->max_tang; ++tp)
          for (int tf = g->min_tof; tf <= g->max_tof; ++tf)
            g->bins.push_back(Bin(s, v, a, tp, tf));
  g->eqclass = id;
  for (auto& o : all_geos)
    if (same_data_voxel_origin(*o, *g) && same_index_range(*o, *g))
      {
        g->eqclass = o->eqclass;
        break;
      }
  all_geos.push_back(g);
  return g;
}

// the comparisons of ProjMatrixByBinUsingRayTracing::set_up, with the library's own operator==: projection data, voxel
// size, origin ... and index range
static bool
same_data_voxel_origin(const Geo& a, const Geo& b)
{
  return *a.pdi == *b.pdi && a.image->get_voxel_size() == b.image->get_voxel_size() && a.image->get_origin() == b.image->get_origin();
}

static bool
same_index_range(const Geo& a, const Geo& b)
{
  return a.minz == b.minz && a.maxz == b.maxz && a.miny == b.miny && a.maxy == b.maxy && a.minx == b.minx && a.maxx == b.maxx;
}

static std::string
spec_str(const GeoSpec& s)
{
  std::ostringstream o;
  o << "N=" << s.N << " R=" << s.R << " span=" << s.span << " mash=" << s.mash << " ntang=" << s.ntang << " arc=" << s.arc
    << " maxdelta=" << s.max_delta << " tof=" << s.tof_bins << "/" << s.tof_mash << " tilt=" << s.tilt << " zoom=" << s.zoom << " aniso=" << s.aniso << " nx=" << s.nx << "+" << s.dnx << " ny=" << s.ny << "+"
    << s.dny << " m=" << s.m
    << " extra=" << s.extra_lo << "," << s.extra_hi << " minz=" << s.minz << " originz=" << s.origin_planes << " originx=" << s.origin_x;
  if (s.dxy != 0.F)
    o << " dxy=" << s.dxy;
  if (s.reduced())
    o << " reduced(axial: segments=" << (s.trim_seg < 0 ? std::string("all") : "+-" + std::to_string(s.trim_seg)) << " -" << s.trim_lo << ",-" << s.trim_hi
      << " segment pairs -" << s.seg_cut << " tangential -" << s.tang_lo << ",-" << s.tang_hi << ")";
  return o.str();
}

static std::string
bin_str(const Bin& b)
{
  std::ostringstream s;
  s << b.segment_num() << " " << b.view_num() << " " << b.axial_pos_num() << " " << b.tangential_pos_num() << " " << b.timing_pos_num();
  return s.str();
}

static bool
same_coords(const Bin& a, const Bin& b)
{
  return a.segment_num() == b.segment_num() && a.view_num() == b.view_num() && a.axial_pos_num() == b.axial_pos_num()
         && a.tangential_pos_num() == b.tangential_pos_num() && a.timing_pos_num() == b.timing_pos_num();
}

// ------------------------------------------------------------------------------------------------ section A

static const int sample_vox[2][3] = { { 1, 2, 3 }, { -4, -1, 5 } };

static void
section_A(const Geo& g, vh::Rng& rng, int bin_stride)
{
  for (int flags = 0; flags < 32; ++flags)
    {
      const bool f90 = flags & 1, f180 = flags & 2, fseg = flags & 4, fs = flags & 8, fz = flags & 16;
      std::fprintf(ops, "cfg %d %d %d %d %d %s\n", f90, f180, fseg, fs, fz, g.tokens.c_str());
      shared_ptr<DataSymmetriesForBins_PET_CartesianGrid> sym;
      try
        {
          sym.reset(new DataSymmetriesForBins_PET_CartesianGrid(g.pdi, g.image, f90, f180, fseg, fs, fz));
        }
      catch (...)
        {
          std::fprintf(out, "err\n");
          histo["A:ctor-err"]++;
          continue;
        }
      {
        std::ostringstream a;
        a << "eff " << sym->using_symmetry_90degrees_min_phi() << " " << sym->using_symmetry_180degrees_min_phi() << " "
          << sym->using_symmetry_swap_segment() << " " << sym->using_symmetry_swap_s() << " " << sym->using_symmetry_shift_z() << " "
          << std::lround(sym->get_num_planes_per_scanner_ring()) << " nppa";
        for (int s = g.min_seg; s <= g.max_seg; ++s)
          a << " " << std::lround(sym->get_num_planes_per_axial_pos(s));
        a << " zoff4";
        for (int s = g.min_seg; s <= g.max_seg; ++s)
          {
            const float z4 = 4 * sym->get_axial_pos_to_z_offset(s);
            if (std::fabs(z4 - std::lround(z4)) > 1.E-2F)
              a << " nonint";
            else
              a << " " << std::lround(z4);
          }
        std::fprintf(out, "%s\n", a.str().c_str());
        char k[64];
        std::snprintf(k, sizeof k, "A:eff=%d%d%d%d%d", sym->using_symmetry_90degrees_min_phi(), sym->using_symmetry_180degrees_min_phi(),
                      sym->using_symmetry_swap_segment(), sym->using_symmetry_swap_s(), sym->using_symmetry_shift_z());
        histo[k]++;
        // property statement on the implementation: a symmetry that exchanges the x and y indices of the voxels is a symmetry of
        // the grid only if the x and y voxel sizes agree (the library's own tolerance: 2e-3 mm), whichever is the larger one
        ++oracle_checks;
        if (sym->using_symmetry_90degrees_min_phi() && std::fabs(g.vy - g.vx) > 2.E-3F)
          oracle_fail("the symmetries that exchange x and y (do_symmetry_90degrees_min_phi) are in force for unequal x/y voxel sizes: flags="
                      + std::to_string(flags) + " voxel size y=" + vh::hex(g.vy) + " x=" + vh::hex(g.vx) + " geo=[" + spec_str(g.sp) + "]");
        if (g.vx != g.vy)
          histo[std::string("A:voxels-") + (g.vx > g.vy ? "x>y" : "y>x") + (std::fabs(g.vy - g.vx) > 2.E-3F ? "" : "-within-guard")
                + (sym->using_symmetry_90degrees_min_phi() ? ":xy-swap-on" : ":xy-swap-off")]++;
      }
      const int offset = bin_stride > 1 ? rng.range(0, bin_stride - 1) : 0;
      auto emit = [&](const Bin& b, const bool check_rebuild) {
          std::fprintf(ops, "sym %s\n", bin_str(b).c_str());
          Bin b0 = b;
          const bool change = sym->find_basic_bin(b0);
          Bin b2 = b;
          unique_ptr<SymmetryOperation> op = sym->find_symmetry_operation_from_basic_bin(b2);
          std::ostringstream a;
          if (!same_coords(b0, b2))
            a << "basic-bins-differ ";
          a << bin_str(b0) << " " << (change ? 1 : 0) << " | ";
          Bin ob = b2;
          op->transform_bin_coordinates(ob);
          a << bin_str(ob) << " | ";
          ViewSegmentNumbers vs(b2.view_num(), b2.segment_num());
          op->transform_view_segment_indices(vs);
          a << vs.view_num() << " " << vs.segment_num();
          ProjMatrixElemsForOneBin row(b2);
          BasicCoordinate<3, int> tc[2];
          for (int k = 0; k < 2; ++k)
            {
              BasicCoordinate<3, int> c = make_coordinate(sample_vox[k][0], sample_vox[k][1], sample_vox[k][2]);
              row.push_back(ProjMatrixElemsForOneBin::value_type(c, 1.F + k));
              op->transform_image_coordinates(c);
              tc[k] = c;
              a << " | " << c[1] << " " << c[2] << " " << c[3];
            }
          op->transform_proj_matrix_elems_for_one_bin(row);
          bool rowok = same_coords(row.get_bin(), ob) && row.size() == 2;
          if (rowok)
            {
              int k = 0;
              for (ProjMatrixElemsForOneBin::const_iterator it = row.begin(); it != row.end(); ++it, ++k)
                rowok = rowok && it->get_coords() == tc[k] && it->get_value() == 1.F + k;
            }
          a << " | " << (op->is_trivial() ? 1 : 0) << " " << (rowok ? 1 : 0);
          std::fprintf(out, "%s\n", a.str().c_str());
          // property statement on the implementation: the operation applied to the basic bin gives the bin back
          if (!check_rebuild)
            return;
          ++oracle_checks;
          if (!same_coords(ob, b))
            oracle_fail("symmetry operation applied to the basic bin does not give the original bin: flags=" + std::to_string(flags)
                        + " geo=[" + g.tokens + "] bin=" + bin_str(b) + " basic=" + bin_str(b2) + " got=" + bin_str(ob));
      };
      for (std::size_t i = offset; i < g.bins.size(); i += bin_stride)
        emit(g.bins[i], true);
      // timing positions other than 0 on non-TOF data: the only way to reach the timing-position swap of the swap_s
      // operations with the view symmetries on (the constructor switches everything but shift_z off for TOF data).
      // Correspondence with the model only: "operation(basic bin) = bin" is known to be false there
      // (C03_symop_rebuilds_bin_tof_fails), which is why the constructor does what it does.
      if (g.sp.tof_bins == 0)
        for (int k = 0; k < 8; ++k)
          {
            Bin b = g.bins[rng.range(0, static_cast<int>(g.bins.size()) - 1)];
            b.timing_pos_num() = (rng.coin() ? 1 : -1) * rng.range(1, 3);
            emit(b, false);
            histo["A:tof-probe-on-nonTOF-data"]++;
          }
    }
}

// ------------------------------------------------------------------------------------------------ rows

typedef std::tuple<int, int, int> VoxKey;
struct SRow
{
  Bin bin;
  std::vector<std::pair<VoxKey, float>> e; // sorted by the library's sort()
};

static SRow
fetch(const ProjMatrixByBin& pm, const Bin& b)
{
  ProjMatrixElemsForOneBin r;
  pm.get_proj_matrix_elems_for_one_bin(r, b);
  r.sort();
  SRow s;
  s.bin = r.get_bin();
  for (ProjMatrixElemsForOneBin::const_iterator it = r.begin(); it != r.end(); ++it)
    s.e.push_back(std::make_pair(VoxKey(it->coord1(), it->coord2(), it->coord3()), it->get_value()));
  return s;
}

static std::string
row_str(const SRow& r)
{
  std::ostringstream s;
  s << r.e.size();
  for (auto& x : r.e)
    s << " " << std::get<0>(x.first) << " " << std::get<1>(x.first) << " " << std::get<2>(x.first) << " " << vh::hex(x.second);
  return s.str();
}

struct MatrixCfg
{
  int kind = 0; // 0: ProjMatrixByBinUsingRayTracing, 1: ProjMatrixByBinUsingInterpolation
  int flags = 31;
  int ntl = 1;               // ray tracing only
  bool restrict_fov = true;  // ray tracing only
  bool actual = false;       // ray tracing only: set_use_actual_detector_boundaries
};

static const char* kind_name[2] = { "raytracing", "interpolation" };

static shared_ptr<ProjMatrixByBin>
new_matrix(int kind)
{
  if (kind == 0)
    return shared_ptr<ProjMatrixByBin>(new ProjMatrixByBinUsingRayTracing);
  return shared_ptr<ProjMatrixByBin>(new ProjMatrixByBinUsingInterpolation);
}

// the matrix parameters: through the set_* functions (ray tracing) or, as the interpolating matrix has none, through its
// parser (values of keys that are not mentioned stay as they are)
static void
configure(ProjMatrixByBin& pm0, const MatrixCfg& c)
{
  if (c.kind == 0)
    {
      ProjMatrixByBinUsingRayTracing& pm = dynamic_cast<ProjMatrixByBinUsingRayTracing&>(pm0);
      pm.set_do_symmetry_90degrees_min_phi(c.flags & 1);
      pm.set_do_symmetry_180degrees_min_phi(c.flags & 2);
      pm.set_do_symmetry_swap_segment(c.flags & 4);
      pm.set_do_symmetry_swap_s(c.flags & 8);
      pm.set_do_symmetry_shift_z(c.flags & 16);
      pm.set_num_tangential_LORs(c.ntl);
      pm.set_restrict_to_cylindrical_FOV(c.restrict_fov);
      pm.set_use_actual_detector_boundaries(c.actual);
    }
  else
    {
      ProjMatrixByBinUsingInterpolation& pm = dynamic_cast<ProjMatrixByBinUsingInterpolation&>(pm0);
      std::ostringstream t;
      t << "Interpolation Matrix Parameters :=\n"
        << "use_piecewise_linear_interpolation := 1\n"
        << "do_symmetry_90degrees_min_phi := " << (c.flags & 1 ? 1 : 0) << "\n"
        << "do_symmetry_180degrees_min_phi := " << (c.flags & 2 ? 1 : 0) << "\n"
        << "do_symmetry_swap_segment := " << (c.flags & 4 ? 1 : 0) << "\n"
        << "do_symmetry_swap_s := " << (c.flags & 8 ? 1 : 0) << "\n"
        << "do_symmetry_shift_z := " << (c.flags & 16 ? 1 : 0) << "\n"
        << "End Interpolation Matrix Parameters :=\n";
      std::istringstream in(t.str());
      if (!pm.parse(in))
        {
          std::fprintf(stderr, "c03 harness: ProjMatrixByBinUsingInterpolation::parse failed\n");
          std::exit(3);
        }
    }
}

// use_actual_detector_boundaries stays on in set_up only for non-arc-corrected data without view mashing and axial
// compression (otherwise set_up resets it with a warning)
static bool
actual_boundaries_effective(const struct Geo& g);

// reference rows: a fresh matrix with all symmetries off and no cache, per (geometry, rays, FOV)
struct Reference
{
  shared_ptr<ProjMatrixByBin> pm;
  std::map<std::string, SRow> rows;
  const SRow& row(const Bin& b)
  {
    const std::string k = bin_str(b);
    auto it = rows.find(k);
    if (it == rows.end())
      it = rows.insert(std::make_pair(k, fetch(*pm, b))).first;
    return it->second;
  }
};
static std::map<std::tuple<int, int, int, bool, bool>, shared_ptr<Reference>> references;

static bool
actual_boundaries_effective(const Geo& g)
{
  if (g.sp.arc || g.sp.mash != 1)
    return false;
  for (int s = g.min_seg; s <= g.max_seg; ++s)
    if (g.cyl->get_min_ring_difference(s) != g.cyl->get_max_ring_difference(s))
      return false;
  return true;
}

static Reference&
reference(const Geo& g, const MatrixCfg& cfg)
{
  auto key = std::make_tuple(g.id, cfg.kind, cfg.ntl, cfg.restrict_fov, cfg.actual);
  auto it = references.find(key);
  if (it == references.end())
    {
      shared_ptr<Reference> r(new Reference);
      r->pm = new_matrix(cfg.kind);
      MatrixCfg c = cfg;
      c.flags = 0;
      configure(*r->pm, c);
      r->pm->enable_cache(false);
      r->pm->set_up(g.pdi, g.image);
      it = references.insert(std::make_pair(key, r)).first;
    }
  return *it->second;
}

// geometric screen (does not look at any computed row).  A bin is left out of the comparison with the directly
// computed row when, for one of the rays traced for it,
//  - the ray is parallel to a grid axis and runs along a voxel boundary (which of the two voxel columns it belongs
//    to is a rounding tie), or
//  - the ray is tangent to the cylindrical FOV (whether it is traced at all is a rounding tie), or
//  - an end point of the ray on the border of the FOV has a coordinate on a voxel boundary (which voxel is the first /
//    last one is a rounding tie).
// The end points are computed as ProjMatrixByBinUsingRayTracing does, from the public geometry of the data and image.
static bool
near_half(double u)
{
  const double fr = u - std::floor(u);
  return std::fabs(fr - .5) < 2.E-3;
}

static bool
screened(const Geo& g, const Bin& b, const MatrixCfg& cfg)
{
  if (cfg.kind == 1)
    return false; // the interpolating matrix is continuous in the geometry: nothing to screen
  const int ntl = cfg.ntl;
  const bool restrict_fov = cfg.restrict_fov;
  const bool actual = cfg.actual && actual_boundaries_effective(g);
  double phi = g.pdi->get_phi(b);
  double s = g.pdi->get_s(b);
  if (actual)
    {
      // as calculate_proj_matrix_elems_for_one_bin does it, from the public detector-pair table
      const ProjDataInfoCylindricalNoArcCorr& nac = dynamic_cast<const ProjDataInfoCylindricalNoArcCorr&>(*g.pdi);
      const int num_detectors = g.pdi->get_scanner_ptr()->get_num_detectors_per_ring();
      int d1 = 0, d2 = 0;
      nac.get_det_num_pair_for_view_tangential_pos_num(d1, d2, b.view_num(), b.tangential_pos_num());
      phi = static_cast<float>((d1 + d2) * _PI / num_detectors - _PI / 2 + nac.get_azimuthal_angle_offset());
      s = static_cast<float>(g.pdi->get_scanner_ptr()->get_effective_ring_radius() * std::sin((d1 - d2) * _PI / num_detectors + _PI / 2));
    }
  const double cphi = std::cos(phi), sphi = std::sin(phi);
  const double tantheta = g.pdi->get_tantheta(b);
  const double costheta = 1 / std::sqrt(1 + tantheta * tantheta);
  const double t = g.pdi->get_t(b);
  const double samp_z = g.pdi->get_sampling_in_t(b) / costheta;
  const int nlz = static_cast<int>(std::ceil(samp_z / g.vz - 1.E-3));
  const double offset_in_z
      = -samp_z / (2 * nlz) * (nlz - 1) - g.image->get_origin().z() + (g.maxz + g.minz) / 2. * g.vz;
  const double fovrad = std::min(std::min(g.maxx, -g.minx) * static_cast<double>(g.vx), std::min(g.maxy, -g.miny) * static_cast<double>(g.vy));
  const bool along_y = std::fabs(sphi) < 1.E-4, along_x = std::fabs(cphi) < 1.E-4;
  const double inc = (actual ? 2 : 1) * g.pdi->get_sampling_in_s(b) / ntl;
  for (int k = 0; k < ntl; ++k)
    {
      const double sk = s - inc * (ntl - 1) / 2. + k * inc;
      if (along_y && near_half(sk * cphi / g.vx))
        return true;
      if (along_x && near_half(sk * sphi / g.vy))
        return true;
      double max_a, min_a;
      if (restrict_fov)
        {
          if (std::fabs(std::fabs(sk) - fovrad) < 1.E-3 * g.vx)
            return true;
          if (std::fabs(sk) > fovrad)
            continue;
          max_a = std::sqrt(fovrad * fovrad - sk * sk);
          min_a = -max_a;
        }
      else
        {
          if (std::fabs(cphi) < 1.E-3 || std::fabs(sphi) < 1.E-3)
            {
              if (std::fabs(std::fabs(sk) - fovrad) < 1.E-3 * g.vx)
                return true;
              if (fovrad < std::fabs(sk))
                continue;
              max_a = fovrad;
              min_a = -fovrad;
            }
          else
            {
              const double sgs = sphi < 0 ? -1 : 1, sgc = cphi < 0 ? -1 : 1;
              max_a = std::min((fovrad * sgs - sk * cphi) / sphi, (fovrad * sgc + sk * sphi) / cphi);
              min_a = std::max((-fovrad * sgs - sk * cphi) / sphi, (-fovrad * sgc + sk * sphi) / cphi);
              if (std::fabs(min_a - (max_a - 1.E-3 * g.vx)) < 1.E-3 * g.vx)
                return true;
              if (min_a > max_a - 1.E-3 * g.vx)
                continue;
            }
        }
      for (int e = 0; e < 2; ++e)
        {
          const double a = e == 0 ? max_a : min_a;
          if (near_half((sk * cphi + a * sphi) / g.vx) || near_half((sk * sphi - a * cphi) / g.vy))
            return true;
          if (tantheta != 0 && near_half((t / costheta + offset_in_z - a * tantheta) / g.vz))
            return true;
        }
    }
  return false;
}

// first voxel (if any) at which two rows differ by more than the library's own tolerance (2e-3 of the row maximum)
static bool
rows_differ(const SRow& r, const SRow& ref, std::string* what)
{
  float mx = 0.F;
  for (auto& x : ref.e)
    mx = std::max(mx, x.second);
  for (auto& x : r.e)
    mx = std::max(mx, x.second);
  const float tol = mx * .002F;
  std::size_t i = 0, j = 0;
  while (i < r.e.size() || j < ref.e.size())
    {
      float a = 0.F, d = 0.F;
      VoxKey k;
      if (j >= ref.e.size() || (i < r.e.size() && r.e[i].first < ref.e[j].first))
        {
          k = r.e[i].first;
          a = r.e[i++].second;
        }
      else if (i >= r.e.size() || ref.e[j].first < r.e[i].first)
        {
          k = ref.e[j].first;
          d = ref.e[j++].second;
        }
      else
        {
          k = r.e[i].first;
          a = r.e[i++].second;
          d = ref.e[j++].second;
        }
      if (std::fabs(a - d) > tol)
        {
          std::ostringstream m;
          m << "voxel " << std::get<0>(k) << "," << std::get<1>(k) << "," << std::get<2>(k) << ": " << a << " vs " << d << " (row max " << mx << ")";
          *what = m.str();
          return true;
        }
    }
  return false;
}

// the switches in force in the symmetries object of a matrix that has been set up
struct Eff
{
  bool d90 = false, d180 = false, seg = false, s = false, z = false;
};

static Eff
effective(const ProjMatrixByBin& pm)
{
  Eff e;
  const DataSymmetriesForBins_PET_CartesianGrid* y = dynamic_cast<const DataSymmetriesForBins_PET_CartesianGrid*>(pm.get_symmetries_ptr());
  if (y)
    {
      e.d90 = y->using_symmetry_90degrees_min_phi();
      e.d180 = y->using_symmetry_180degrees_min_phi();
      e.seg = y->using_symmetry_swap_segment();
      e.s = y->using_symmetry_swap_s();
      e.z = y->using_symmetry_shift_z();
    }
  return e;
}

// with use_actual_detector_boundaries: is the angle computed from the detector pair about pi away from the angle of the view?
// (detector numbers are taken modulo the number of detectors; the same formulas as calculate_proj_matrix_elems_for_one_bin)
static bool
phi_off_by_pi(const Geo& g, const Bin& b)
{
  const ProjDataInfoCylindricalNoArcCorr& nac = dynamic_cast<const ProjDataInfoCylindricalNoArcCorr&>(*g.pdi);
  const int num_detectors = g.pdi->get_scanner_ptr()->get_num_detectors_per_ring();
  int d1 = 0, d2 = 0;
  nac.get_det_num_pair_for_view_tangential_pos_num(d1, d2, b.view_num(), b.tangential_pos_num());
  const float phi = static_cast<float>((d1 + d2) * _PI / num_detectors - _PI / 2 + nac.get_azimuthal_angle_offset());
  return std::fabs(phi - g.pdi->get_phi(b)) > _PI / 2;
}

// the property's statement for one returned row (pm: the matrix that returned it)
static void
oracle_row(const Geo& g, const MatrixCfg& c, const char* mode, const Bin& b, const SRow& r, const char* where, const ProjMatrixByBin& pm)
{
  ++oracle_checks;
  if (!r.e.empty())
    ++rows_nonempty;
  rows_elements += static_cast<long>(r.e.size());
  std::ostringstream ctx;
  ctx << where << " matrix=" << kind_name[c.kind] << " flags=" << c.flags << " mode=" << mode << " rays=" << c.ntl << " cylFOV=" << c.restrict_fov
      << " actual_detector_boundaries=" << c.actual << " geo=[" << spec_str(g.sp)
      << "] bin=" << bin_str(b);
  if (!same_coords(r.bin, b))
    {
      oracle_fail("returned row carries another bin (" + bin_str(r.bin) + "): " + ctx.str());
      return;
    }
  // does the operation that derives this row exchange the x and y indices?
  auto exchanges_xy = [&]() {
    Bin bb = b;
    unique_ptr<SymmetryOperation> op = pm.get_symmetries_ptr()->find_symmetry_operation_from_basic_bin(bb);
    BasicCoordinate<3, int> probe = make_coordinate(0, 1, 2);
    op->transform_image_coordinates(probe);
    return std::abs(probe[2]) == 2;
  };
  // known class: the interpolating matrix on an image whose index ranges in x and y differ, with the x/y exchanging
  // symmetries in force (the ray tracing matrix confines its rows to the largest centred circle / square)
  auto known_unequal_xy_ranges = [&](const std::string& what) {
    if (!(c.kind == 1 && (g.miny != g.minx || g.maxy != g.maxx) && effective(pm).d90 && exchanges_xy()))
      return false;
    known_candidate("interpolation-matrix:unequal-xy-index-ranges:xy-exchanging-symmetry",
                    "DataSymmetriesForBins_PET_CartesianGrid leaves the symmetries that exchange x and y (do_symmetry_90degrees_min_phi) "
                    "on for an image whose index ranges in x and y differ; ProjMatrixByBinUsingInterpolation computes the row of the "
                    "basic bin over the whole (per axis symmetrised) x and y range of the image, so the rows of the views in (45,135] "
                    "degrees, derived by exchanging the x and y indices, have elements outside the image where it is narrower and lack "
                    "those where it is wider: first case of this run: " + what + ": " + ctx.str());
    return true;
  };
  // exact clauses
  const float ring_spacing = g.pdi->get_scanner_ptr()->get_ring_spacing();
  const float half_extent = g.sp.R * ring_spacing / 2;
  for (std::size_t i = 0; i < r.e.size(); ++i)
    {
      const int z = std::get<0>(r.e[i].first), y = std::get<1>(r.e[i].first), x = std::get<2>(r.e[i].first);
      if (!(r.e[i].second >= 0.F))
        {
          oracle_fail("negative (or NaN) element " + vh::hex(r.e[i].second) + ": " + ctx.str());
          return;
        }
      if (i > 0 && r.e[i - 1].first == r.e[i].first)
        {
          oracle_fail("voxel " + std::to_string(z) + "," + std::to_string(y) + "," + std::to_string(x) + " occurs twice: " + ctx.str());
          return;
        }
      if (y < g.miny || y > g.maxy || x < g.minx || x > g.maxx)
        {
          if (known_unequal_xy_ranges("voxel " + std::to_string(z) + "," + std::to_string(y) + "," + std::to_string(x) + " outside the image in x/y"))
            return;
          oracle_fail("voxel " + std::to_string(z) + "," + std::to_string(y) + "," + std::to_string(x)
                      + " outside the image in x/y: " + ctx.str());
          return;
        }
      if ((z < g.minz || z > g.maxz) && c.kind == 1)
        {
          // the interpolating matrix: the voxel must at least lie in the axial support of the interpolation kernel around the
          // LOR: |m(voxel) - m(bin)| <= 1.25 max(z voxel size, axial sampling) (piecewise-linear kernel for voxels of half
          // the sampling; the linear kernel is narrower), m(voxel) = z - tan(theta) (-x sin(phi) + y cos(phi))
          const float zmm = (z - (g.maxz + g.minz) / 2.F) * g.vz + g.image->get_origin().z();
          const float phi = g.pdi->get_phi(b);
          const float mvox = zmm - g.pdi->get_tantheta(b) * (-x * g.vx * std::sin(phi) + y * g.vy * std::cos(phi));
          const float support = 1.25F * std::max(g.vz, g.pdi->get_sampling_in_m(b));
          if (std::fabs(mvox - g.pdi->get_m(b)) <= support + 1.E-3F)
            known_candidate("voxel-outside-image-in-z:interpolation-matrix:within-axial-support-of-kernel",
                            "rows of ProjMatrixByBinUsingInterpolation are not clipped to the planes of the image: "
                            "calculate_proj_matrix_elems_for_one_bin takes its z range from the geometry of the LOR, not from the "
                            "image (its own comment: 'we have to include voxels with negative z... Horrible'), so bins near the "
                            "axial ends (and oblique bins at the edge of the FOV) have elements up to 1.25 axial samplings outside "
                            "the image, with and without symmetries: first case of this run: voxel z=" + std::to_string(z) + " with image planes "
                                + std::to_string(g.minz) + ".." + std::to_string(g.maxz) + ": " + ctx.str());
          else
            {
              oracle_fail("voxel " + std::to_string(z) + "," + std::to_string(y) + "," + std::to_string(x)
                          + " outside the image in z, beyond the axial support of the interpolation kernel: " + ctx.str());
              return;
            }
        }
      else if (z < g.minz || z > g.maxz)
        {
          // position of the voxel centre relative to the centre of the scanner
          const float m = (z - (g.maxz + g.minz) / 2.F) * g.vz + g.image->get_origin().z();
          if (std::fabs(m) <= half_extent + 1.E-3F)
            known_candidate("voxel-outside-image-in-z:within-axial-extent-of-end-ring",
                            "rows are not clipped to the planes of the image: a bin whose tube of response sticks out of the image "
                            "axially (end rings; the image covers the ring centres but not the full axial extent of the scanner) has "
                            "elements whose z index is outside the image (forward/back projection skip such elements): first case of "
                            "this run: voxel z=" + std::to_string(z) + " with image planes " + std::to_string(g.minz) + ".."
                                + std::to_string(g.maxz) + ": " + ctx.str());
          else
            {
              oracle_fail("voxel " + std::to_string(z) + "," + std::to_string(y) + "," + std::to_string(x)
                          + " outside the image in z, beyond the axial extent of the scanner: " + ctx.str());
              return;
            }
        }
    }
  // same row as computed directly, up to the library's own tolerance
  if (screened(g, b, c))
    {
      ++oracle_screened;
      return;
    }
  const SRow& ref = reference(g, c).row(b);
  std::string what;
  if (!rows_differ(r, ref, &what))
    return;
  // classes of inputs for which the statement is known to fail (each named by the input, not by the outcome)
  const Eff e = effective(pm);
  Bin b0 = b;
  pm.get_symmetries_ptr()->find_basic_bin(b0);
  const bool view_moved = b0.view_num() != b.view_num();
  if (c.kind == 0 && c.actual && actual_boundaries_effective(g))
    {
      if ((e.d90 || e.d180) && view_moved && std::abs(b.tangential_pos_num()) % 2 == 1)
        {
          known_candidate("actual-detector-boundaries:view-symmetry:odd-tangential-pos",
                          "ProjMatrixByBinUsingRayTracing with use_actual_detector_boundaries and the 90/180 degrees symmetries: with the "
                          "actual detector boundaries the LORs of odd tangential positions lie half a view further (interleaving, "
                          "phi = view*pi/num_views - pi/num_detectors), so the mirror image of view v is not view num_views-v as "
                          "DataSymmetriesForBins_PET_CartesianGrid assumes: the row derived from the basic bin differs from the row "
                          "computed directly: first case of this run: " + what + ": " + ctx.str());
          return;
        }
      if (b.segment_num() != 0 && phi_off_by_pi(g, b) != phi_off_by_pi(g, b0))
        {
          known_candidate("actual-detector-boundaries:oblique-segment:phi-off-by-pi",
                          "ProjMatrixByBinUsingRayTracing with use_actual_detector_boundaries: det_num1+det_num2 is taken modulo the "
                          "number of detectors, so for some (view, tangential position) phi comes out pi away from the angle of the "
                          "view with s of the opposite sign: the same line in a direct plane but its mirror image in z in an oblique "
                          "segment; a bin and its basic bin (swap_s, view symmetries) are not both affected, so derived and directly "
                          "computed row differ: first case of this run: " + what + ": " + ctx.str());
          return;
        }
    }
  if (c.kind == 1 && std::fabs(g.vx - g.vy) > 2.E-3F && e.d180 && view_moved)
    {
      const float phi = g.pdi->get_phi(b);
      if (std::cos(phi) < 0 && -std::cos(phi) > std::sin(phi))
        {
          known_candidate("interpolation-matrix:anisotropic-voxels:view-beyond-135-degrees",
                          "ProjMatrixByBinUsingInterpolation::get_element chooses the voxel size for the tangential kernel by "
                          "'cphi > sphi' instead of |cphi| > |sphi|: for views beyond 135 degrees (cos(phi) < 0) it takes the y voxel "
                          "size where the mirror-image view below 45 degrees takes the x voxel size, so with x voxel size != y voxel "
                          "size the row derived by the 180 degrees symmetry differs from the row computed directly: first case of "
                          "this run: " + what + ": " + ctx.str());
          return;
        }
    }
  if (known_unequal_xy_ranges(what))
    return;
  if (g.vx != g.vy && std::fabs(g.vy - g.vx) <= 2.E-3F && e.d90)
    {
      if (exchanges_xy())
        {
          known_candidate("unequal-xy-voxel-sizes-within-guard-tolerance:xy-exchanging-symmetry",
                          "DataSymmetriesForBins_PET_CartesianGrid takes x and y voxel sizes that differ by up to 2e-3 mm for equal "
                          "(fabs(dy-dx) > 2.E-3F switches the x/y exchanging symmetries off): for 0 < |dy-dx| <= 2e-3 mm the rows of the "
                          "views in (45,135] degrees are derived by exchanging the x and y indices of a grid that is not exactly "
                          "symmetric; where a ray cuts a voxel near a corner at a shallow angle the length changes by several times "
                          "the displacement of the voxel edge (half the image width times the difference), more than the 2e-3 of the "
                          "row maximum that the library's own comparison of rows accepts: first case of this run: " + what + ": " + ctx.str());
          return;
        }
    }
  oracle_fail("row differs from the directly computed row at " + what + ": " + ctx.str());
  if (std::getenv("C03_FAIL_CLASSES"))
    {
      std::ostringstream k;
      k << "F:" << kind_name[c.kind] << ":actual=" << c.actual << ":tof=" << (g.sp.tof_bins > 0) << ":span=" << g.sp.span << ":aniso=" << g.sp.aniso
        << ":flags=" << c.flags << ":seg" << (b.segment_num() == 0 ? "0" : "!=0") << ":tangodd=" << (std::abs(b.tangential_pos_num()) % 2);
      histo[k.str()]++;
    }
}

// ------------------------------------------------------------------------------------------------ section C

struct Sweep
{
  int kind = 0;
  std::vector<int> ntls = { 1 };
  std::vector<int> restricts = { 1 };
  std::vector<int> actuals = { 0 };
  int flag_stride = 1;
};

static void
section_C(const Geo& g, vh::Rng& rng, const Sweep& sw)
{
  static const char* mode_name[3] = { "nocache", "basic", "full" };
  for (int ntl : sw.ntls)
    for (int restrict_fov : sw.restricts)
     for (int actual : sw.actuals)
      for (int flags = rng.range(0, sw.flag_stride - 1); flags < 32; flags += sw.flag_stride)
        for (int mode = 0; mode < 3; ++mode)
          {
            MatrixCfg c;
            c.kind = sw.kind;
            c.flags = flags;
            c.ntl = ntl;
            c.restrict_fov = restrict_fov;
            c.actual = actual;
            shared_ptr<ProjMatrixByBin> pm_sptr = new_matrix(c.kind);
            ProjMatrixByBin& pm = *pm_sptr;
            configure(pm, c);
            pm.enable_cache(mode != 0);
            pm.store_only_basic_bins_in_cache(mode == 1);
            pm.set_up(g.pdi, g.image);
            for (std::size_t i = 0; i < g.bins.size(); ++i)
              oracle_row(g, c, mode_name[mode], g.bins[i], fetch(pm, g.bins[i]), "sweep", pm);
            // second pass in another order: now (mostly) served from the cache
            const std::size_t n = g.bins.size();
            const std::size_t step = 1 + 2 * rng.range(0, 20);
            for (std::size_t i = 0; i < n; i += step)
              oracle_row(g, c, mode_name[mode], g.bins[n - 1 - i], fetch(pm, g.bins[n - 1 - i]), "sweep2", pm);
            histo[std::string("C:") + (c.kind ? "interp-" : "") + (c.actual ? (actual_boundaries_effective(g) ? "actual-" : "actual(reset)-") : "")
                  + (g.sp.tof_bins > 0 ? "tof-" : "") + mode_name[mode]]++;
          }
}

// ------------------------------------------------------------------------------------------------ section B

static std::string
pset_tokens(const MatrixCfg& c)
{
  std::ostringstream s;
  s << (c.flags & 1 ? 1 : 0) << " " << (c.flags & 2 ? 1 : 0) << " " << (c.flags & 4 ? 1 : 0) << " " << (c.flags & 8 ? 1 : 0) << " "
    << (c.flags & 16 ? 1 : 0) << " " << c.ntl << " " << (c.restrict_fov ? 1 : 0) << " " << (c.actual ? 1 : 0);
  return s.str();
}

// ------------------------------------------------------------------------------------------------ probes

// Two ways in which a row can depend on the geometries a matrix object was set up for before ("after setting the matrix
// up again for another geometry"), each checked on the implementation before the histories are generated.  If the
// implementation fails a probe, this is reported (KNOWN-CANDIDATE with a stable key) and the histories of section B state
// the parameters again (set_* / parse) before every set_up, which makes the object forget; if it passes, the histories
// do not, and the exact comparison with the model covers the class.
static bool reassert_params_before_setup[2] = { false, false };
// does set_up leave the 90/180 degrees symmetries on when use_actual_detector_boundaries stays on? (told to the model)
static int impl_keeps_view_symmetries_with_actual = 1;
// does the constructor of the symmetries switch the x/y exchanging symmetries off for an image whose index ranges in x and y
// differ? (proposed repair C03-6; told to the model: op `pimpl`)
static int impl_xy_range_guard = 0;

static void
probe_xy_range_guard()
{
  GeoSpec a; // 8 unmashed views, square voxels, 7 x 9 voxels
  a.dny = 2;
  shared_ptr<Geo> g = build_geo(a, 0);
  all_geos.pop_back();
  DataSymmetriesForBins_PET_CartesianGrid sym(g->pdi, g->image, true, true, true, true, true);
  impl_xy_range_guard = sym.using_symmetry_90degrees_min_phi() ? 0 : 1;
  histo[impl_xy_range_guard ? "P:xy-exchange-off-for-unequal-xy-index-ranges" : "P:xy-exchange-kept-for-unequal-xy-index-ranges"]++;
  std::fprintf(ops, "pimpl %d\n", impl_xy_range_guard);
  std::fprintf(out, "ok\n");
}

static void
probes(const Geo& elig, const Geo& nonelig, const Geo& coarse_z, const Geo& fine_z)
{
  {
    MatrixCfg c;
    c.actual = true;
    ProjMatrixByBinUsingRayTracing pm;
    configure(pm, c);
    pm.set_up(elig.pdi, elig.image);
    impl_keeps_view_symmetries_with_actual = effective(pm).d180 ? 1 : 0;
    histo[impl_keeps_view_symmetries_with_actual ? "P:view-symmetries-kept-with-actual-boundaries" : "P:view-symmetries-off-with-actual-boundaries"]++;
  }
  {
    // use_actual_detector_boundaries: set_up for data for which it cannot be used (span 3), then for data for which it can
    MatrixCfg c;
    c.flags = 0;
    c.actual = true;
    ProjMatrixByBinUsingRayTracing pm;
    configure(pm, c);
    pm.enable_cache(false);
    pm.set_up(nonelig.pdi, nonelig.image);
    pm.set_up(elig.pdi, elig.image);
    for (const Bin& b : elig.bins)
      {
        ++oracle_checks;
        std::string what;
        if (rows_differ(fetch(pm, b), reference(elig, c).row(b), &what))
          {
            reassert_params_before_setup[0] = true;
            known_candidate("set_up-history:use-actual-detector-boundaries:reset-persists",
                            "ProjMatrixByBinUsingRayTracing::set_up resets the member use_actual_detector_boundaries to false for data "
                            "with view mashing / axial compression / arc correction and never restores it: after "
                            "set_use_actual_detector_boundaries(true); set_up(span-3 data); set_up(span-1 data) the rows are those without "
                            "the actual detector boundaries, while a new object set up for the span-1 data alone uses them: first case "
                            "of this run: bin " + bin_str(b) + " " + what + " geo=[" + spec_str(elig.sp) + "] after geo=[" + spec_str(nonelig.sp) + "]");
          }
      }
    histo["P:actual-boundaries-after-other-data"]++;
  }
  {
    // the interpolating matrix: set_up for z voxel size = axial sampling, then for half of it
    MatrixCfg c;
    c.kind = 1;
    c.flags = 0;
    ProjMatrixByBinUsingInterpolation pm;
    std::istringstream in("Interpolation Matrix Parameters :=\ndo_symmetry_90degrees_min_phi := 0\ndo_symmetry_180degrees_min_phi := 0\n"
                          "do_symmetry_swap_segment := 0\ndo_symmetry_swap_s := 0\ndo_symmetry_shift_z := 0\nEnd Interpolation Matrix Parameters :=\n");
    pm.parse(in);
    pm.enable_cache(false);
    pm.set_up(coarse_z.pdi, coarse_z.image);
    pm.set_up(fine_z.pdi, fine_z.image);
    for (const Bin& b : fine_z.bins)
      {
        ++oracle_checks;
        std::string what;
        if (rows_differ(fetch(pm, b), reference(fine_z, c).row(b), &what))
          {
            reassert_params_before_setup[1] = true;
            known_candidate("set_up-history:interpolation-matrix:piecewise-linear-interpolation-switched-off-persists",
                            "ProjMatrixByBinUsingInterpolation::set_up switches use_piecewise_linear_interpolation_now (the variable the "
                            "parser writes to) off when the z voxel size is not half the axial sampling and never switches it on again: "
                            "after set_up(image with z voxel size = ring spacing); set_up(image with half of it) the rows are linearly "
                            "interpolated, while a new object set up for the second image alone interpolates piecewise-linearly: first "
                            "case of this run: bin " + bin_str(b) + " " + what + " geo=[" + spec_str(fine_z.sp) + "] after geo=[" + spec_str(coarse_z.sp) + "]");
          }
      }
    histo["P:interpolation-after-other-voxel-size"]++;
  }
}

static std::set<std::string> data_sent; // (matrix class, geometry, rays, FOV, detector boundaries, basic bin) whose computed row has been sent to the model

// one matrix object and the protocol of what is done to it (ops `pnew`, `pset`, `psetup`, `pmode`, `pclear`, `pget`)
struct Hist
{
  shared_ptr<ProjMatrixByBin> pm;
  MatrixCfg c;
  const Geo* g = nullptr;
  bool cache_enabled = true, basic_only = true;
  const char* mode = "basic";
  const char* where = "history";
  std::vector<Bin> recent; // the last requested bins: asked again right after parameter / geometry changes

  explicit Hist(int kind)
  {
    pm = new_matrix(kind);
    c.kind = kind;
    std::fprintf(ops, "pnew %d %d\n", kind, impl_keeps_view_symmetries_with_actual);
    std::fprintf(out, "ok\n");
  }
  void pset()
  {
    configure(*pm, c);
    std::fprintf(ops, "pset %s\n", pset_tokens(c).c_str());
    std::fprintf(out, "ok\n");
  }
  bool setup(const Geo* geo)
  {
    g = geo;
    if (reassert_params_before_setup[c.kind])
      pset();
    std::fprintf(ops, "psetup %d\n", g->id);
    try
      {
        pm->set_up(g->pdi, g->image);
        std::fprintf(out, "ok\n");
        return true;
      }
    catch (...)
      {
        std::fprintf(out, "err\n");
        return false;
      }
  }
  void set_mode(bool enabled, bool basic)
  {
    cache_enabled = enabled;
    basic_only = basic;
    pm->enable_cache(cache_enabled);
    pm->store_only_basic_bins_in_cache(basic_only);
    mode = !cache_enabled ? "nocache" : (basic_only ? "basic" : "full");
    std::fprintf(ops, "pmode %d %d\n", cache_enabled ? 1 : 0, basic_only ? 1 : 0);
    std::fprintf(out, "ok\n");
  }
  void clear()
  {
    pm->clear_cache();
    std::fprintf(ops, "pclear\n");
    std::fprintf(out, "ok\n");
  }
  bool in_range(const Bin& b) const
  {
    return b.segment_num() >= g->min_seg && b.segment_num() <= g->max_seg && b.view_num() >= 0 && b.view_num() < g->V
           && b.axial_pos_num() >= g->pdi->get_min_axial_pos_num(b.segment_num())
           && b.axial_pos_num() <= g->pdi->get_max_axial_pos_num(b.segment_num()) && b.tangential_pos_num() >= g->min_tang
           && b.tangential_pos_num() <= g->max_tang && b.timing_pos_num() >= g->min_tof && b.timing_pos_num() <= g->max_tof;
  }
  // one request: the row goes to the model (exact comparison) and to the oracle (fresh matrix without symmetries and cache)
  bool get(const Bin& b)
  {
    SRow r;
    try
      {
        r = fetch(*pm, b);
      }
    catch (...)
      {
        std::fprintf(ops, "pget %s\n", bin_str(b).c_str());
        std::fprintf(out, "err\n");
        oracle_fail("get_proj_matrix_elems_for_one_bin threw for bin " + bin_str(b) + " geo=[" + spec_str(g->sp) + "]");
        return false;
      }
    Bin b0 = b;
    pm->get_symmetries_ptr()->find_basic_bin(b0);
    std::ostringstream key;
    key << c.kind << "/" << g->eqclass << "/" << c.ntl << "/" << c.restrict_fov << "/" << c.actual << "/" << bin_str(b0);
    std::string data;
    if (data_sent.insert(key.str()).second)
      data = " data " + bin_str(b0) + " " + row_str(reference(*g, c).row(b0));
    std::fprintf(ops, "pget %s%s\n", bin_str(b).c_str(), data.c_str());
    std::fprintf(out, "row %s %s\n", bin_str(r.bin).c_str(), row_str(r).c_str());
    oracle_row(*g, c, mode, b, r, where, *pm);
    histo[std::string("B:") + (c.kind ? "interp-" : "") + "get-" + mode]++;
    if (c.actual)
      histo[actual_boundaries_effective(*g) ? "B:get-with-actual-boundaries" : "B:get-with-actual-boundaries(reset)"]++;
    if (g->sp.tof_bins > 0)
      histo["B:get-tof"]++;
    recent.push_back(b);
    if (recent.size() > 8)
      recent.erase(recent.begin());
    return true;
  }
  bool repeat_recent()
  {
    const std::vector<Bin> again = recent;
    for (const Bin& b : again)
      if (in_range(b) && !get(b))
        return false;
    return true;
  }
};

static void
history(const std::vector<shared_ptr<Geo>>& geos, vh::Rng& rng, int num_events, int kind = 0)
{
  Hist h(kind);
  MatrixCfg& c = h.c;
  c.flags = rng.range(0, 31);
  if (kind == 0)
    {
      c.ntl = rng.range(0, 3) == 0 ? 2 : 1;
      c.actual = rng.range(0, 3) == 0;
    }
  const Geo* g = geos[rng.range(0, static_cast<int>(geos.size()) - 1)].get();
  h.pset();
  if (!h.setup(g))
    return;
  // a pool of bins concentrated on few (segment, view) pairs and their mirror images, so that requests hit the same
  // cache buckets / basic bins again and again
  std::vector<Bin> pool;
  auto refill = [&]() {
    pool.clear();
    for (int k = 0; k < 5; ++k)
      {
        const Bin& b = g->bins[rng.range(0, static_cast<int>(g->bins.size()) - 1)];
        const int V = g->V;
        const int views[5] = { b.view_num(), (V - b.view_num()) % V, (V / 2 + b.view_num()) % V, ((V / 2 - b.view_num()) % V + V) % V,
                               rng.range(0, V - 1) };
        for (int vi = 0; vi < 5; ++vi)
          for (int sg = -1; sg <= 1; sg += 2)
            for (int tg = -1; tg <= 1; tg += 2)
              {
                const int seg = sg * b.segment_num(), tang = tg * b.tangential_pos_num();
                if (seg < g->min_seg || seg > g->max_seg || tang < g->min_tang || tang > g->max_tang)
                  continue;
                const int a = rng.range(g->pdi->get_min_axial_pos_num(seg), g->pdi->get_max_axial_pos_num(seg));
                const int tf = rng.coin() ? b.timing_pos_num() : -b.timing_pos_num();
                if (tf < g->min_tof || tf > g->max_tof)
                  continue;
                pool.push_back(Bin(seg, views[vi], a, tang, tf));
              }
      }
  };
  refill();
  for (int ev = 0; ev < num_events; ++ev)
    {
      const int what = rng.range(0, 99);
      if (what < 82)
        {
          if (!h.get(pool[rng.range(0, static_cast<int>(pool.size()) - 1)]))
            return;
        }
      else if (what < 86)
        {
          h.clear();
          histo["B:clear"]++;
        }
      else if (what < 92)
        {
          const bool enabled = rng.range(0, 3) != 0;
          const bool basic = rng.coin();
          h.set_mode(enabled, basic);
          histo["B:mode"]++;
        }
      else if (what < 96)
        {
          // change parameters (symmetry switches, sometimes the number of rays / FOV) and set up again for the same geometry
          const int k = rng.range(0, 9);
          if (k < 5 || (kind == 1 && k < 9))
            c.flags ^= 1 << rng.range(0, 4);
          else if (k < 7)
            c.ntl = c.ntl == 1 ? 2 : 1;
          else if (k < 8)
            c.restrict_fov = !c.restrict_fov;
          else if (k < 9)
            c.actual = !c.actual;
          // k == 9: "set" to the same values: set_up must be allowed to skip
          h.pset();
          if (!h.setup(g))
            return;
          if (!h.repeat_recent())
            return;
          histo["B:pset+setup"]++;
        }
      else
        {
          // set up for another (or the same) geometry
          g = geos[rng.range(0, static_cast<int>(geos.size()) - 1)].get();
          if (!h.setup(g))
            return;
          if (!h.repeat_recent())
            return;
          refill();
          histo["B:setup-geo"]++;
        }
    }
}

// ------------------------------------------------------------------------------------------------ section E

// set_up for a second geometry that agrees with the first in projection data, voxel size and origin but not in the
// index range of the image: the rows afterwards must be those of the second geometry (the property's "after setting
// the matrix up again for another geometry"), in every cache mode, also for rows that were in the cache before.
// (The early return of ProjMatrixByBinUsingRayTracing::set_up used to ignore the index range: repaired.)
static void
section_E(const Geo& g1, const Geo& g2, vh::Rng& rng, int kind = 0)
{
  static const char* mode_name[3] = { "nocache", "basic", "full" };
  if (!same_data_voxel_origin(g1, g2) || same_index_range(g1, g2))
    {
      std::fprintf(stderr, "c03 harness: section E pair %d,%d is not a same-data/other-index-range pair\n", g1.id, g2.id);
      std::exit(3);
    }
  for (int mode = 0; mode < 3; ++mode)
    {
      MatrixCfg c;
      c.kind = kind;
      c.flags = rng.range(0, 31);
      if (kind == 0)
        {
          c.ntl = rng.range(1, 2);
          c.actual = rng.range(0, 2) == 0;
        }
      shared_ptr<ProjMatrixByBin> pm_sptr = new_matrix(kind);
      ProjMatrixByBin& pm = *pm_sptr;
      configure(pm, c);
      pm.enable_cache(mode != 0);
      pm.store_only_basic_bins_in_cache(mode == 1);
      pm.set_up(g1.pdi, g1.image);
      for (std::size_t i = 0; i < g1.bins.size(); i += 2)
        fetch(pm, g1.bins[i]);
      pm.set_up(g2.pdi, g2.image);
      for (std::size_t i = 0; i < g2.bins.size(); ++i)
        oracle_row(g2, c, mode_name[mode], g2.bins[i], fetch(pm, g2.bins[i]), "set_up-other-index-range", pm);
      histo[kind ? "E:interp-pairs" : "E:pairs"]++;
    }
}

// ------------------------------------------------------------------------------------------------ section F

// set_up again, on ONE object, for projection data that are CONTAINED in the data of the previous set_up (or contain them):
// ProjDataInfo::operator>= holds (index ranges of segments, axial and tangential positions fit, all else equal) but the
// data are not equal, and with a reduced axial range the same bin numbers are other LORs (axial positions are centred on
// the scanner); also for data that are reductions of the same data without one containing the other (e.g. as many
// axial positions removed at the lower end here as at the upper end there).  The rows afterwards must be those of the second geometry: every request goes to the model (exact
// comparison with the cache state machine, for which the two are different geometries) and to the oracle (a new matrix
// set up for the second geometry alone, no symmetries, no cache).
static void
section_F(const std::vector<const Geo*>& chain_in, vh::Rng& rng, int kind, int first_stride)
{
  // (a generated reduction that changes nothing gives the same geometry again: left out)
  std::vector<const Geo*> chain;
  for (const Geo* g : chain_in)
    {
      if (!chain.empty()
          && (chain.back()->eqclass == g->eqclass || !(chain.back()->image->get_voxel_size() == g->image->get_voxel_size())
              || !same_index_range(*chain.back(), *g) || *chain.back()->pdi == *g->pdi))
        {
          histo["F:left-out(equal)"]++;
          continue;
        }
      chain.push_back(g);
    }
  if (chain.size() < 2)
    return;
  for (int mode = 0; mode < 3; ++mode)
    {
      Hist h(kind);
      h.where = "set_up-contained-data";
      h.c.flags = rng.range(0, 3) == 0 ? 31 : rng.range(0, 31);
      if (kind == 0)
        h.c.ntl = rng.range(0, 2) == 0 ? 2 : 1;
      h.pset();
      h.set_mode(mode != 0, mode == 1);
      for (std::size_t k = 0; k < chain.size(); ++k)
        {
          const Geo& g = *chain[k];
          if (!h.setup(&g))
            {
              oracle_fail("set_up threw for geo=[" + spec_str(g.sp) + "]");
              return;
            }
          // all rows after the last set_up, a sample before
          const std::size_t stride = k + 1 == chain.size() ? 1 : first_stride;
          for (std::size_t i = stride > 1 ? rng.range(0, static_cast<int>(stride) - 1) : 0; i < g.bins.size(); i += stride)
            if (!h.get(g.bins[i]))
              return;
          if (k > 0)
            histo[std::string(kind ? "F:interp-" : "F:")
                  + (*chain[k - 1]->pdi >= *g.pdi ? "set_up-for-contained-data-"
                                                  : (*g.pdi >= *chain[k - 1]->pdi ? "set_up-for-containing-data-" : "set_up-for-overlapping-data-"))
                  + h.mode]++;
        }
    }
}

// ------------------------------------------------------------------------------------------------ section D

static void
section_D(vh::Rng& rng, int cases)
{
  for (int cse = 0; cse < cases; ++cse)
    {
      ProjMatrixElemsForOneBin r[2];
      std::map<VoxKey, long> sum;
      std::ostringstream line;
      line << "merge";
      const int span = rng.range(1, 3);
      for (int k = 0; k < 2; ++k)
        {
          const int n = rng.range(0, 7);
          std::set<VoxKey> used;
          std::vector<std::pair<VoxKey, int>> el;
          for (int i = 0; i < n; ++i)
            {
              VoxKey v(rng.range(-1, 1), rng.range(-span, span), rng.range(-span, span));
              if (!used.insert(v).second)
                continue;
              el.push_back(std::make_pair(v, rng.range(1, 9)));
            }
          line << " " << el.size();
          for (auto& x : el)
            {
              line << " " << std::get<0>(x.first) << " " << std::get<1>(x.first) << " " << std::get<2>(x.first) << " " << x.second;
              r[k].push_back(ProjMatrixElemsForOneBin::value_type(
                  make_coordinate(std::get<0>(x.first), std::get<1>(x.first), std::get<2>(x.first)), static_cast<float>(x.second)));
              sum[x.first] += x.second;
            }
        }
      const bool second_empty = r[1].size() == 0;
      r[0].merge(r[1]);
      // merge() leaves its result sorted unless the second row is empty (then it returns at once)
      bool sorted = true;
      for (ProjMatrixElemsForOneBin::const_iterator it = r[0].begin(); it != r[0].end() && it + 1 != r[0].end(); ++it)
        sorted = sorted && ProjMatrixElemsForOneBin::value_type::coordinates_less(*it, *(it + 1));
      r[0].sort();
      std::fprintf(ops, "%s\n", line.str().c_str());
      std::ostringstream a;
      a << r[0].size();
      bool ok = r[0].size() == sum.size() && (sorted || second_empty);
      auto sit = sum.begin();
      for (ProjMatrixElemsForOneBin::const_iterator it = r[0].begin(); it != r[0].end(); ++it)
        {
          a << " " << it->coord1() << " " << it->coord2() << " " << it->coord3() << " " << std::lround(it->get_value());
          if (ok)
            {
              ok = VoxKey(it->coord1(), it->coord2(), it->coord3()) == sit->first && std::lround(it->get_value()) == sit->second;
              ++sit;
            }
        }
      std::fprintf(out, "%s\n", a.str().c_str());
      ++oracle_checks;
      if (!ok)
        oracle_fail("merge of two duplicate-free rows is not the sorted pointwise sum: " + line.str() + " -> " + a.str());
    }
}

// ------------------------------------------------------------------------------------------------ main

#include <chrono>
// C03_TIMING=1: wall time of the sections on stderr
static void
lap(const char* what)
{
  static auto t0 = std::chrono::steady_clock::now();
  const auto t1 = std::chrono::steady_clock::now();
  if (std::getenv("C03_TIMING"))
    std::fprintf(stderr, "C03_TIMING %s %.2f s\n", what, std::chrono::duration<double>(t1 - t0).count());
  t0 = t1;
}

static GeoSpec
random_spec(vh::Rng& rng, bool small)
{
  GeoSpec s;
  static const int Ns[] = { 8, 12, 16, 20, 24, 10, 14 };
  s.N = Ns[rng.range(0, small ? 4 : 6)];
  s.R = rng.range(2, small ? 3 : 4);
  {
    // span 1 / 3 mostly, even spans (segment 0 then has span+1 ring differences, the others span: half-integer
    // average ring differences) now and then
    const int sk = rng.range(0, 7);
    s.span = sk < 3 ? 1 : (sk < 6 ? 3 : (sk == 6 ? 2 : 4));
  }
  if (s.span >= 3 && s.R < 3)
    s.R = 3;
  s.max_delta = s.R - 1;
  if (rng.range(0, 2) == 0)
    s.max_delta = rng.range(s.span / 2, s.R - 1); // outer segments cut off (the last segment may be narrower than the others)
  s.mash = 1;
  if ((s.N / 2) % 2 == 0 && rng.range(0, 3) == 0)
    s.mash = 2;
  s.ntang = std::max(3, s.N / 2 - 1 - rng.range(0, 1));
  s.arc = rng.range(0, 3) == 0;
  s.tof_bins = 0;
  if (rng.range(0, 3) == 0)
    {
      // TOF: 3, 5 or 9 timing positions of the scanner, the 9 also mashed by 3; smaller scanners (every timing position
      // multiplies the number of bins)
      static const int tb[] = { 3, 5, 9, 9 };
      const int k = rng.range(0, 3);
      s.tof_bins = tb[k];
      s.tof_mash = k == 3 ? 3 : 1;
      static const int tNs[] = { 8, 12, 10, 16 };
      s.N = tNs[rng.range(0, 3)];
      if ((s.N / 2) % 2 != 0)
        s.mash = 1;
      s.R = std::min(s.R, 3);
      s.max_delta = std::min(s.max_delta, s.R - 1);
      s.ntang = std::max(3, std::min(s.N / 2 - 1 - rng.range(0, 1), 5));
    }
  const int vk = rng.range(0, 5);
  s.zoom = vk == 0 ? 2.F : (vk == 1 ? .5F : (vk == 2 ? 1.3F : 1.F));
  {
    const int ak = rng.range(0, 7);
    if (ak == 0)
      s.aniso = 1.25F; // anisotropic: no 90 degree symmetry
    else if (ak == 1)
      {
        s.aniso = .8F; // y voxels smaller than x voxels
        s.same_nxy = rng.coin(); // ... and the FOV radius in mm limited by the y extent
      }
  }
  s.dnx = -rng.range(0, 2); // even sizes, FOV cutting the outer tangential positions
  s.dny = rng.range(0, 3) == 0 ? s.dnx - 1 : s.dnx;
  s.m = rng.range(1, 2) + (rng.range(0, 5) == 0 ? 1 : 0);
  s.extra_lo = rng.range(0, 2);
  s.extra_hi = rng.range(0, 2);
  s.minz = rng.range(-2, 2);
  s.origin_planes = static_cast<float>(rng.range(-1, 1));
  return s;
}

int
main(int argc, char** argv)
{
  if (argc < 5)
    return 2;
  vh::quiet();
  vh::Rng rng(std::strtoull(argv[1], nullptr, 10) * 2654435761ULL + 3);
  const bool thorough = std::string(argv[2]) == "thorough";
  ops = std::fopen(argv[3], "w");
  out = std::fopen(argv[4], "w");
  orc = std::fopen((std::string(argv[4]) + ".oracle").c_str(), "w");
  int next_id = 1;
  probe_xy_range_guard();

  // ---- fixed geometries (every run), then seeded ones
  std::vector<shared_ptr<Geo>> full; // all bins x all 32 switch combinations
  {
    GeoSpec a; // 8 views (divisible by 4), span 1, square voxels, odd image size
    full.push_back(build_geo(a, next_id++));
    GeoSpec b; // 6 views (not divisible by 4), span 3, even image size, finer z sampling, shifted z origin, index range not starting at 0
    b.N = 12;
    b.R = 3;
    b.span = 3;
    b.ntang = 5;
    b.dnx = b.dny = -1; // even size
    b.zoom = 1.5F;
    b.m = 2;
    b.extra_lo = 1;
    b.extra_hi = 2;
    b.minz = -2;
    b.origin_planes = 1.F;
    full.push_back(build_geo(b, next_id++));
    GeoSpec c; // TOF
    c.N = 8;
    c.R = 2;
    c.max_delta = 1;
    c.ntang = 3;
    c.tof_bins = 5;
    full.push_back(build_geo(c, next_id++));
    GeoSpec d; // the standard image of a 3-ring scanner, span 1: 5 planes of half the ring spacing
    d.m = 2;
    full.push_back(build_geo(d, next_id++));
    GeoSpec e; // TOF with span 3, view mashing (4 views), TOF mashing (9 timing positions mashed to 3), even image size
    e.N = 16;
    e.mash = 2;
    e.R = 3;
    e.span = 3;
    e.ntang = 5;
    e.tof_bins = 9;
    e.tof_mash = 3;
    e.dnx = e.dny = -1;
    e.extra_lo = 1;
    full.push_back(build_geo(e, next_id++));
    GeoSpec f; // even span (segment 0: ring differences -1..1, segments +-1: 2..3, average ring difference +-2.5)
    f.N = 12;
    f.R = 4;
    f.span = 2;
    f.max_delta = 3;
    f.ntang = 5;
    f.zoom = 1.2F;
    full.push_back(build_geo(f, next_id++));
    GeoSpec h; // outer segments cut off: span 3, 4 rings, max_delta 2 < R-1: segments +-1 hold ring difference +-2 only
               // (axial sampling = ring spacing there, half of it in segment 0)
    h.N = 8;
    h.R = 4;
    h.span = 3;
    h.max_delta = 2;
    h.ntang = 3;
    h.m = 2;
    full.push_back(build_geo(h, next_id++));
  }
  const int nrandom_full = thorough ? 30 : 3;
  for (int k = 0; k < nrandom_full; ++k)
    full.push_back(build_geo(random_spec(rng, !thorough), next_id++));

  // x/y voxel sizes that differ in EITHER direction, by amounts on both sides of the threshold (2e-3 mm) of the
  // constructor's guard, on data for which the x/y-swapping symmetries can be in force: no view offset (no intrinsic tilt,
  // no view mashing), number of views divisible by 4, no TOF.  All bins x 32 switch combinations (section A: effective
  // switches, basic bins and operations against the model, whose guard is evaluated on the voxel sizes; section C: rows
  // derived by the symmetries against directly computed ones).
  std::vector<shared_ptr<Geo>> aniso;
  {
    static const float dxys[] = { 2.F, .04F, .01F, .0025F, .0015F };
    static const int Ns[] = { 16, 8, 24 };
    int k = 0;
    for (float d : dxys)
      for (int sign = -1; sign <= 1; sign += 2, ++k)
        {
          GeoSpec a;
          a.N = thorough ? Ns[rng.range(0, 2)] : Ns[k % 3];
          a.R = 2;
          a.max_delta = 1;
          a.ntang = a.N / 2 - 1;
          a.arc = k % 4 == 3;
          a.zoom = k % 5 == 2 ? 2.F : 1.F;
          a.dnx = a.dny = -(k % 2); // odd and even image sizes
          a.m = 1 + k % 2;
          a.dxy = sign * d;
          aniso.push_back(build_geo(a, next_id++));
        }
    // ... and as ratios, with the voxel size limiting the field of view in x or in y
    static const float ratios[] = { 1.1F, 1 / 1.1F };
    for (float r : ratios)
      {
        GeoSpec a;
        a.R = 2;
        a.max_delta = 1;
        a.aniso = r;
        a.same_nxy = true;
        aniso.push_back(build_geo(a, next_id++));
      }
    // square voxels, index ranges that differ in x and y (one more voxel at each end in y; one fewer in y: not centred)
    for (int k = 0; k < 2; ++k)
      {
        GeoSpec a;
        a.N = 8;
        a.R = 2;
        a.max_delta = 1;
        a.ntang = 3;
        a.dny = k == 0 ? 2 : -1;
        aniso.push_back(build_geo(a, next_id++));
      }
    for (auto& g : aniso)
      full.push_back(g);
  }

  std::vector<shared_ptr<Geo>> sampled; // special cases, sampled bins
  {
    GeoSpec a; // view offset: no 90/180 degree symmetries
    a.tilt = 0.1F;
    sampled.push_back(build_geo(a, next_id++));
    GeoSpec b; // image shifted in x: everything but shift_z is switched off
    b.origin_x = 1.F;
    sampled.push_back(build_geo(b, next_id++));
    GeoSpec c; // odd number of views, arc-corrected, anisotropic voxels
    c.N = 10;
    c.ntang = 4;
    c.arc = true;
    c.aniso = 1.25F;
    c.zoom = .5F; // arc-corrected, voxel twice the bin size: odd tangential positions run along voxel boundaries at 0 and 90 degrees
    c.dny = -1;
    sampled.push_back(build_geo(c, next_id++));
    GeoSpec c2; // y voxels smaller than x voxels, square index range: LORs reach the image border in y first
    c2.N = 12;
    c2.ntang = 5;
    c2.aniso = .75F;
    c2.same_nxy = true;
    sampled.push_back(build_geo(c2, next_id++));
    GeoSpec d; // view mashing to 4 views, even span-like axial sampling with 4 rings
    d.N = 16;
    d.mash = 2;
    d.R = 4;
    d.span = 3;
    d.max_delta = 3;
    d.m = 3;
    sampled.push_back(build_geo(d, next_id++));
    GeoSpec e; // error branch: z origin not a whole number of planes
    e.origin_planes = .5F;
    sampled.push_back(build_geo(e, next_id++));
  }
  for (int k = 0; k < (thorough ? 30 : 4); ++k)
    sampled.push_back(build_geo(random_spec(rng, false), next_id++));
  {
    // voxels of about 2 mm (a tenth of the bin size), x/y ratios 1.1 and 1.002 either way: all beyond the guard's threshold
    static const float ratios[] = { 1.1F, 1 / 1.1F, 1.002F, 1 / 1.002F };
    for (int k = 0; k < (thorough ? 4 : 2); ++k)
      {
        GeoSpec a;
        a.R = 2;
        a.max_delta = 1;
        a.zoom = 10.F;
        a.aniso = ratios[thorough ? k : 2 * rng.range(0, 1) + k];
        sampled.push_back(build_geo(a, next_id++));
      }
  }

  lap("geometries");
  // ---- section A
  for (auto& g : full)
    section_A(*g, rng, 1);
  for (auto& g : sampled)
    section_A(*g, rng, thorough ? 2 : 5);

  lap("section A");
  // ---- section C (oracle sweeps) on the geometries the ray tracing matrix accepts
  for (std::size_t k = 0; k < full.size(); ++k)
    {
      if (k == 7)
        lap("section C fixed");
      if (full[k] == aniso[0])
        lap("section C generated");
      const bool is_aniso = std::find(aniso.begin(), aniso.end(), full[k]) != aniso.end();
      Sweep sw;
      sw.ntls = { 1, 2 };
      if (thorough)
        sw.ntls.push_back(3);
      if (thorough || k == 0)
        sw.restricts.push_back(0);
      // (quick tier: the x/y voxel-size geometries with one ray, every fourth also with two)
      if (is_aniso && !thorough && (k - (full.size() - aniso.size())) % 4 != 0)
        sw.ntls = { 1 };
      // TOF data: the constructor leaves shift_z only, so the 32 combinations are 2 classes: sample them
      if (full[k]->sp.tof_bins > 0 && !thorough)
        sw.flag_stride = 4;
      section_C(*full[k], rng, sw);
      // use_actual_detector_boundaries (phi and s of every bin from the detector pair): where set_up keeps it on, and
      // on one geometry where set_up resets it
      if ((actual_boundaries_effective(*full[k]) && (thorough || !is_aniso)) || k == 1)
        {
          Sweep sa;
          sa.actuals = { 1 };
          sa.ntls = { 1, 2 };
          if (thorough)
            sa.restricts.push_back(0);
          sa.flag_stride = (thorough || k == 0) ? 1 : 4;
          section_C(*full[k], rng, sa);
        }
      // ProjMatrixByBinUsingInterpolation
      {
        Sweep si;
        si.kind = 1;
        si.flag_stride = (thorough || k < 2 || (is_aniso && full[k]->sp.dny != full[k]->sp.dnx)) ? 1 : 4;
        section_C(*full[k], rng, si);
      }
    }
  lap("section C x/y voxel sizes");
  for (auto& g : sampled)
    if (g->sp.origin_x == 0.F && g->sp.origin_planes == std::floor(g->sp.origin_planes))
      {
        Sweep sw;
        sw.flag_stride = thorough ? 1 : 4;
        section_C(*g, rng, sw);
        if (actual_boundaries_effective(*g))
          {
            sw.actuals = { 1 };
            section_C(*g, rng, sw);
          }
        Sweep si;
        si.kind = 1;
        si.flag_stride = std::getenv("C03_ALLFLAGS") ? 1 : (thorough ? 2 : 8);
        section_C(*g, rng, si);
      }

  lap("section C sampled");
  // ---- section B (histories): geometry groups that differ in one aspect only
  shared_ptr<Geo> g_a2, g_a7;
  std::vector<shared_ptr<Geo>> groupT1, groupT2;
  std::vector<std::vector<shared_ptr<Geo>>> groupTR;
  {
    std::vector<shared_ptr<Geo>> group1, group2, group3, group4, groupI;
    GeoSpec a;
    group1.push_back(full[0]);
    GeoSpec a3 = a; // same data, same image size, other voxel size
    a3.zoom = 1.5F;
    group1.push_back(build_geo(a3, next_id++));
    GeoSpec a4 = a; // same data, same image size, z origin shifted by one plane (two more planes)
    a4.extra_lo = 1;
    a4.extra_hi = 1;
    a4.origin_planes = 1.F;
    group1.push_back(build_geo(a4, next_id++));
    GeoSpec a5 = a; // other data (fewer tangential positions), same image
    a5.ntang = 5;
    group1.push_back(build_geo(a5, next_id++));
    GeoSpec a6 = a; // two more planes below, origin compensates: same physical grid, other index range and origin
    a6.extra_lo = 2;
    a6.extra_hi = 0;
    group1.push_back(build_geo(a6, next_id++));
    GeoSpec a2 = a; // same data, voxel size and origin; larger image in x and y: other index range only
    a2.dnx = a2.dny = 2;
    GeoSpec a7 = a; // ... one more plane at each end
    a7.extra_lo = a7.extra_hi = 1;
    g_a2 = build_geo(a2, next_id++);
    g_a7 = build_geo(a7, next_id++);
    group1.push_back(g_a2);
    group1.push_back(g_a7);
    group2.push_back(full[1]);
    group2.push_back(full[0]);
    group2.push_back(sampled[3]);
    group2.push_back(full[3]); // same data as full[0], half the z voxel size
    group3.push_back(full[2]); // TOF
    GeoSpec c2 = full[2]->sp;
    c2.zoom = .8F;
    group3.push_back(build_geo(c2, next_id++));
    group3.push_back(full[4]); // TOF, span 3, view and TOF mashing
    group4.push_back(full[5]); // even span
    group4.push_back(full[6]); // outer segments cut off
    group4.push_back(full[1]);
    group4.push_back(full[0]);
    // the interpolating matrix: full[0] and full[3] differ in the z voxel size only (ring spacing, half of it)
    groupI.push_back(full[0]);
    groupI.push_back(full[3]);
    groupI.push_back(full[1]);
    groupI.push_back(g_a2);
    std::vector<shared_ptr<Geo>> bad = { sampled[5] }; // z origin not a whole number of planes
    // data contained in other data (index ranges reduced on a clone, same image): groupT1 span 1 (5 rings, 4 views),
    // groupT2 span 3 (5 rings, 6 views); member 0 is the unreduced one
    {
      GeoSpec t1;
      t1.N = 8;
      t1.R = 6;
      t1.max_delta = 2;
      t1.ntang = 3;
      t1.m = 2;
      GeoSpec t2;
      t2.N = 12;
      t2.R = 5;
      t2.span = 3;
      t2.max_delta = 4;
      t2.ntang = 5;
      t2.dnx = t2.dny = -1;
      groupT1.push_back(build_geo(t1, next_id++));
      groupT2.push_back(build_geo(t2, next_id++));
      auto red = [&](std::vector<shared_ptr<Geo>>& grp, int trim_seg, int lo, int hi, int seg_cut, int tang_lo, int tang_hi) {
        GeoSpec r = grp[0]->sp;
        r.trim_seg = trim_seg;
        r.trim_lo = lo;
        r.trim_hi = hi;
        r.seg_cut = seg_cut;
        r.tang_lo = tang_lo;
        r.tang_hi = tang_hi;
        grp.push_back(build_geo(r, next_id++));
      };
      red(groupT1, -1, 0, 2, 0, 0, 0); // 1: the last two axial positions of every segment removed
      red(groupT1, -1, 2, 0, 0, 0, 0); // 2: the first two
      red(groupT1, -1, 1, 1, 0, 0, 0); // 3: one at each end (the same LORs under other axial position numbers ... none: min stays the reference)
      red(groupT1, 0, 0, 2, 0, 0, 0);  // 4: segment 0 only
      red(groupT1, 1, 2, 0, 0, 0, 0);  // 5: segments +-1 only, lower end
      red(groupT1, -1, 0, 0, 1, 0, 0); // 6: outer segments removed
      red(groupT1, -1, 0, 0, 0, 1, 0); // 7: fewer tangential positions (one end)
      red(groupT1, -1, 0, 2, 1, 0, 1); // 8: combination: contained in 1, 6 and (but for the tangential end) 7
      red(groupT1, -1, 0, 4, 1, 0, 1); // 9: contained in 8
      red(groupT1, -1, 0, 1, 0, 0, 0); // 10: an odd number of axial positions removed (LORs half a ring spacing off the usual positions)
      red(groupT2, -1, 0, 2, 0, 0, 0); // 1
      red(groupT2, 0, 2, 0, 0, 0, 0);  // 2: segment 0 only, lower end
      red(groupT2, 1, 2, 2, 0, 1, 1);  // 3: segments +-1 at both ends, fewer tangential positions at both ends
      red(groupT2, -1, 0, 4, 1, 0, 0); // 4: contained in 1
      for (int k = 0; k < (thorough ? 12 : 2); ++k)
        {
          // generated: a base geometry (non-TOF or TOF) and one or two successive reductions of it
          std::vector<shared_ptr<Geo>> chain;
          GeoSpec b = random_spec(rng, true);
          b.R = std::max(b.R, 4);
          if (b.max_delta == b.R - 2)
            b.max_delta = b.R - 1;
          chain.push_back(build_geo(b, next_id++));
          GeoSpec r = b;
          for (int j = 0; j < 2; ++j)
            {
              r.trim_seg = rng.range(0, 2) == 0 ? rng.range(0, 1) : -1;
              const int step = b.span == 1 && rng.range(0, 3) == 0 ? 1 : 2;
              r.trim_lo += step * rng.range(0, 1);
              r.trim_hi += step * rng.range(0, 1);
              if (r.trim_lo + r.trim_hi == (j == 0 ? 0 : chain.back()->sp.trim_lo + chain.back()->sp.trim_hi))
                r.trim_hi += 2;
              r.seg_cut += rng.range(0, 2) == 0 ? 1 : 0;
              r.tang_hi += rng.range(0, 2) == 0 ? 1 : 0;
              if (j == 1)
                r.trim_seg = chain.back()->sp.trim_seg; // (contained in the first reduction)
              chain.push_back(build_geo(r, next_id++));
            }
          groupTR.push_back(chain);
        }
    }
    std::vector<shared_ptr<Geo>> groupTRflat;
    for (auto& ch : groupTR)
      for (auto& g : ch)
        groupTRflat.push_back(g);
    for (auto* grp : { &group1, &group2, &group3, &group4, &groupI, &bad, &groupT1, &groupT2, &groupTRflat })
      {
        for (auto& g : *grp)
          std::fprintf(ops, "pgeo %d %d %d %s\n", g->id, g->eqclass, actual_boundaries_effective(*g) ? 1 : 0, g->tokens.c_str()), std::fprintf(out, "ok\n");
        // no two members of a group may be the same geometry (equal projection data, voxel size, origin and index range)
        // (the generated chains of section F may repeat one: it is left out there)
        if (grp != &groupTRflat)
        for (auto& g : *grp)
          for (auto& o : *grp)
            if (g->id != o->id && g->eqclass == o->eqclass)
              {
                std::fprintf(stderr, "c03 harness: geometries %d and %d of one history group are in the same class\n", g->id, o->id);
                return 3;
              }
      }
    probes(*full[0], *full[1], *full[0], *full[3]);
    const int nhist = thorough ? 200 : 20;
    for (int h = 0; h < nhist; ++h)
      history(h % 5 == 4 ? group4 : (h % 5 == 3 ? group3 : (h % 5 == 2 ? group2 : group1)), rng, thorough ? 300 : 160);
    for (int h = 0; h < (thorough ? 40 : 4); ++h)
      history(groupI, rng, thorough ? 200 : 100, 1);
    // error branch of set_up: z origin not a whole number of planes
    history(bad, rng, 1);
    // random histories over data that contain one another
    for (int h = 0; h < (thorough ? 60 : 6); ++h)
      history(h % 2 ? groupT2 : groupT1, rng, thorough ? 300 : 160);
    for (int h = 0; h < (thorough ? 10 : 1); ++h)
      history(groupT1, rng, 100, 1);
  }

  lap("section B");
  // ---- section F: set_up for contained / containing data on one object, every row afterwards
  {
    auto G = [](const shared_ptr<Geo>& g) { return g.get(); };
    const int stride = thorough ? 2 : 3;
    for (std::size_t k = 1; k < groupT1.size(); ++k)
      {
        section_F({ G(groupT1[0]), G(groupT1[k]) }, rng, 0, stride);
        section_F({ G(groupT1[k]), G(groupT1[0]) }, rng, 0, stride);
      }
    for (std::size_t k = 1; k < groupT2.size(); ++k)
      {
        section_F({ G(groupT2[0]), G(groupT2[k]) }, rng, 0, stride);
        section_F({ G(groupT2[k]), G(groupT2[0]) }, rng, 0, stride);
      }
    // neither contains the other: the same numbers of axial positions, removed at opposite ends / in other segments
    section_F({ G(groupT1[1]), G(groupT1[2]), G(groupT1[1]) }, rng, 0, stride);
    section_F({ G(groupT1[4]), G(groupT1[5]), G(groupT1[7]) }, rng, 0, stride);
    section_F({ G(groupT2[1]), G(groupT2[2]) }, rng, 0, stride);
    // chains: each contained in the one before, and back
    section_F({ G(groupT1[0]), G(groupT1[1]), G(groupT1[8]), G(groupT1[9]) }, rng, 0, stride);
    section_F({ G(groupT1[9]), G(groupT1[8]), G(groupT1[6]), G(groupT1[0]) }, rng, 0, stride);
    section_F({ G(groupT2[0]), G(groupT2[1]), G(groupT2[4]), G(groupT2[1]) }, rng, 0, stride);
    for (auto& ch : groupTR)
      {
        section_F({ G(ch[0]), G(ch[1]), G(ch[2]) }, rng, 0, stride);
        section_F({ G(ch[2]), G(ch[0]) }, rng, 0, stride);
      }
    // the interpolating matrix (its set_up has no short cut)
    section_F({ G(groupT1[0]), G(groupT1[1]) }, rng, 1, stride);
    section_F({ G(groupT1[5]), G(groupT1[0]) }, rng, 1, stride);
    if (thorough)
      section_F({ G(groupT2[0]), G(groupT2[1]), G(groupT2[4]) }, rng, 1, stride);
  }

  lap("section F");
  // ---- section E
  section_E(*full[0], *g_a2, rng);
  section_E(*g_a2, *full[0], rng);
  section_E(*full[0], *g_a7, rng);
  section_E(*g_a7, *full[0], rng);
  section_E(*full[0], *g_a2, rng, 1);
  section_E(*g_a7, *full[0], rng, 1);

  lap("section E");
  // ---- section D
  section_D(rng, thorough ? 3000 : 400);

  std::fprintf(orc, "ORACLE-DONE checks=%ld fails=%ld screened=%ld known=%ld nonempty_rows=%ld elements=%ld\n", oracle_checks, oracle_fails,
               oracle_screened, known_hits, rows_nonempty, rows_elements);
  for (auto& h : histo)
    std::fprintf(orc, "HISTO %s %ld\n", h.first.c_str(), h.second);
  std::fclose(ops);
  std::fclose(out);
  std::fclose(orc);
  return 0;
}
