// C10 — implementation side: image files round-trip voxel positions, values and exam information.
// Drives the REAL STIR API in-process:
//   InterfileOutputFileFormat (setters / parsed parameter string / OutputFileFormat<...>::default_sptr() / registry by name),
//   InterfileDynamicDiscretisedDensityOutputFileFormat, InterfileParametricDiscretisedDensityOutputFileFormat,
//   MultiDynamicDiscretisedDensityOutputFileFormat, MultiParametricDiscretisedDensityOutputFileFormat,
//   OutputFileFormat::write_to_file, read_from_file<DiscretisedDensity<3,float>|DynamicDiscretisedDensity|ParametricVoxelsOnCartesianGrid>,
//   DiscretisedDensity::get_physical_coordinates_for_indices, ExamInfo accessors, find_scale_factor.
// It reads the header (.hv) and data (.v) files that STIR wrote with its own small parser / decoder, so that what is
// compared with the Lean model is what is in the files.
// Usage: c10_imageio <seed> <quick|thorough> <opsfile> <implfile>
// Line protocol (model side: lean/Driver/C10.lean):
//   cfg ...                                          -> ok
//   whdr min(z y x) max(z y x) voxel(z y x) origin(z y x)   -> nx ny nz vx vy vz fx fy fz   (strings printed in the header)
//   rhdr nx ny nz vx vy vz fx fy fz (header strings) -> min(z y x) max(z y x) voxel(z y x) origin(z y x) of the image read back
//   fsf T given max min                              -> scale factor of stir::find_scale_factor (called directly)
//   conv T given rowlen n x1..xn                     -> <header scale> | stored numbers (decoded from the data file) | fail
//   trunc offset size_all bytes file_length          -> ok | err  (does read_from_file succeed on the truncated data file; single image)
//   offs nsets size_all bytes                        -> data offsets announced in the header of an Interfile dynamic / parametric image
//   ctrunc dyn nm size_all bytes file_length off_1..off_k -> ok | err  (Interfile dynamic (dyn = 1) / parametric image, data file truncated; nm = 1: modality NM)
//   mtrunc size_all bytes len_1..len_k               -> ok | err  (Multi image: lengths of the data files of the members, one of them truncated)
//   exam <fields before> <db answer> <frames>        -> <fields after the round trip>   (header of an Interfile dynamic / parametric image)
//   exams ...                                        -> same for a single image / member of a Multi image (first time frame only is kept)
//   examf f ...                                      -> same for member f of an Interfile dynamic image (header's exam information, frame f alone)
//   examm <fields of member 1 read back> k (start end)*k -> exam information of a Multi dynamic image assembled from its members
// Oracle (<implfile>.oracle): the property's own statement on the implementation, see `Oracle` below.
#include "stir_fixtures.h"
#include "common.h"
#include "stir/IO/InterfileOutputFileFormat.h"
#include "stir/IO/InterfileDynamicDiscretisedDensityOutputFileFormat.h"
#include "stir/IO/InterfileParametricDiscretisedDensityOutputFileFormat.h"
#include "stir/IO/MultiDynamicDiscretisedDensityOutputFileFormat.h"
#include "stir/IO/MultiParametricDiscretisedDensityOutputFileFormat.h"
#include "stir/IO/OutputFileFormat.h"
#include "stir/IO/read_from_file.h"
#include "stir/IO/write_to_file.h"
#include "stir/DiscretisedDensity.h"
#include "stir/DynamicDiscretisedDensity.h"
#include "stir/modelling/ParametricDiscretisedDensity.h"
#include "stir/VoxelsOnCartesianGrid.h"
#include "stir/ExamInfo.h"
#include "stir/RadionuclideDB.h"
#include "stir/NumericType.h"
#include "stir/NumericInfo.h"
#include "stir/ByteOrder.h"
#include "stir/convert_array.h"
#include "stir/Succeeded.h"
#include <cmath>
#include <cstring>
#include <map>
#include <set>
#include <sys/stat.h>
#include <unistd.h>
#include <fcntl.h>

using namespace stir;

// ------------------------------------------------------------------------------------------------ types
struct TypeInfo
{
  NumericType::Type id;
  const char* tag;
  bool integer;
  bool sgn;
  int bytes;
  double maxv, minv;
  const char* number_format;
};
static const TypeInfo TYPES[10] = {
  { NumericType::SCHAR, "s8", true, true, 1, 127., -128., "signed integer" },
  { NumericType::UCHAR, "u8", true, false, 1, 255., 0., "unsigned integer" },
  { NumericType::SHORT, "s16", true, true, 2, 32767., -32768., "signed integer" },
  { NumericType::USHORT, "u16", true, false, 2, 65535., 0., "unsigned integer" },
  { NumericType::INT, "s32", true, true, 4, 2147483647., -2147483648., "signed integer" },
  { NumericType::UINT, "u32", true, false, 4, 4294967295., 0., "unsigned integer" },
  { NumericType::LONG, "s64", true, true, 8, 9223372036854775807., -9223372036854775808., "signed integer" },
  { NumericType::ULONG, "u64", true, false, 8, 18446744073709551615., 0., "unsigned integer" },
  { NumericType::FLOAT, "f32", false, true, 4, 0., 0., "float" },
  { NumericType::DOUBLE, "f64", false, true, 8, 0., 0., "float" },
};

template <class T>
static float
fsf_T(float given, const Array<3, float>& a)
{
  float s = given;
  find_scale_factor(s, a, NumericInfo<T>());
  return s;
}
// stir::find_scale_factor called directly for the given output type
static float
call_find_scale_factor(const TypeInfo& t, float given, const Array<3, float>& a)
{
  switch (t.id)
    {
    case NumericType::SCHAR:
      return fsf_T<signed char>(given, a);
    case NumericType::UCHAR:
      return fsf_T<unsigned char>(given, a);
    case NumericType::SHORT:
      return fsf_T<short>(given, a);
    case NumericType::USHORT:
      return fsf_T<unsigned short>(given, a);
    case NumericType::INT:
      return fsf_T<int>(given, a);
    case NumericType::UINT:
      return fsf_T<unsigned int>(given, a);
    case NumericType::LONG:
      return fsf_T<long>(given, a);
    case NumericType::ULONG:
      return fsf_T<unsigned long>(given, a);
    case NumericType::FLOAT:
      return fsf_T<float>(given, a);
    default:
      return fsf_T<double>(given, a);
    }
}

// ------------------------------------------------------------------------------------------------ output streams + oracle
static FILE *g_ops, *g_out, *g_orc;
static long g_checks = 0, g_fails = 0;
static std::set<std::string> g_known_emitted;
static std::map<std::string, long> g_cover;
static std::string g_ctx;

static void
emit(const std::string& op, const std::string& ans)
{
  std::fprintf(g_ops, "%s\n", op.c_str());
  std::fprintf(g_out, "%s\n", ans.c_str());
}
static void
check(bool ok, const std::string& what)
{
  ++g_checks;
  if (!ok)
    {
      ++g_fails;
      static const long max_lines = std::getenv("C10_MAXFAILS") ? std::atol(std::getenv("C10_MAXFAILS")) : 40; // (debugging aid)
      if (g_fails <= max_lines)
        std::fprintf(g_orc, "ORACLE-FAIL %s [%s]\n", what.c_str(), g_ctx.c_str());
    }
}
// a failing oracle case that belongs to a class with a stable key
static void
known_candidate(const std::string& key, const std::string& text)
{
  ++g_checks;
  g_cover["known:" + key]++;
  if (g_known_emitted.insert(key).second)
    std::fprintf(g_orc, "KNOWN-CANDIDATE %s %s [first seen: %s]\n", key.c_str(), text.c_str(), g_ctx.c_str());
}
static const char* K1 = "values:stir-round-returns-int32:quotient-beyond-2^31-for-uint-long-ulong-output";
static const char* K2 = "values:double-output-with-automatic-scale-factor:scale-underflows-float-and-zeros-are-written";
static const char* K3 = "values:unsigned-output-of-nonpositive-image-with-automatic-scale:write_data-fails-but-write_to_file-reports-success";
static const char* K6 = "values:NM-modality-multi-dataset-interfile:data-offset-in-bytes-not-parsed-so-every-dataset-reads-the-first";

static const char* K7 = "exam:single-image-with-several-time-frames-and-scale-factor-not-1:quantification-units-rejected-by-reader";
static const char* K7_TEXT = "a single image whose exam information has more than one time frame, written with a scale factor other than 1 "
                             "(integer output): write_basic_interfile_image_header announces N time frames but writes 'image scaling factor[1]' and "
                             "'quantification units' for the one data set only; InterfileHeader::post_processing expects the scaling factor of all N "
                             "data sets to equal 'quantification units', rejects the header, and read_interfile_image (which does not test for the "
                             "null pointer) goes on with an uninitialised file name: read_from_file throws";
static const char* K8 = "values:scale-factor-is-a-subnormal-float:1.01-safety-margin-lost-and-reciprocal-overflows-under-ffast-math";
static const char* K6_TEXT = "write_basic_interfile_image_header writes '!type of data := Tomographic' for modality NM, for which "
                             "InterfileHeader::set_type_of_data does not register the key 'data offset in bytes' (KeyParser: unrecognized keyword); "
                             "read_interfile_parametric_image then reads every parameter from offset 0 (read_interfile_dynamic_image lets such a "
                             "frame follow the previous one since 0e66b8adc and is not concerned any more)";

// ------------------------------------------------------------------------------------------------ small helpers
static std::string
H(double x)
{
  return vh::hex(x);
}
static std::string
join(const std::vector<std::string>& v)
{
  std::string s;
  for (std::size_t i = 0; i < v.size(); ++i)
    s += (i ? " " : "") + v[i];
  return s;
}
static bool
file_exists(const std::string& f)
{
  struct stat st;
  return ::stat(f.c_str(), &st) == 0;
}
static long
file_size(const std::string& f)
{
  struct stat st;
  if (::stat(f.c_str(), &st) != 0)
    return -1;
  return static_cast<long>(st.st_size);
}
static std::string
read_bytes(const std::string& f)
{
  std::ifstream in(f, std::ios::binary);
  std::ostringstream s;
  s << in.rdbuf();
  return s.str();
}
static void
write_bytes(const std::string& f, const std::string& b)
{
  std::ofstream o(f, std::ios::binary | std::ios::trunc);
  o.write(b.data(), static_cast<std::streamsize>(b.size()));
}

// key := value lines of an Interfile header; keys normalised (lower case, no '!', no white space)
typedef std::map<std::string, std::string> Hdr;
static Hdr
parse_header(const std::string& f)
{
  Hdr h;
  std::ifstream in(f);
  std::string l;
  while (std::getline(in, l))
    {
      const std::size_t p = l.find(":=");
      if (p == std::string::npos)
        continue;
      std::string k, v = l.substr(p + 2);
      for (char c : l.substr(0, p))
        if (c != '!' && c != ' ' && c != '\t' && c != '_')
          k += static_cast<char>(std::tolower(c));
      const std::size_t a = v.find_first_not_of(" \t\r");
      const std::size_t b = v.find_last_not_of(" \t\r");
      v = a == std::string::npos ? "" : v.substr(a, b - a + 1);
      h[k] = v;
    }
  return h;
}
static std::string
hget(const Hdr& h, const std::string& k, const std::string& dflt = "-")
{
  auto it = h.find(k);
  return it == h.end() ? dflt : it->second;
}
static double
hnum(const Hdr& h, const std::string& k, double dflt)
{
  auto it = h.find(k);
  return it == h.end() ? dflt : std::strtod(it->second.c_str(), nullptr);
}

// one stored number decoded from the data file
struct Raw
{
  bool real;
  bool uns;
  long long s;
  unsigned long long u;
  double r;
  double as_double() const { return real ? r : (uns ? static_cast<double>(u) : static_cast<double>(s)); }
  std::string str() const
  {
    char b[64];
    if (real)
      return H(r);
    if (uns)
      std::snprintf(b, sizeof b, "%llu", u);
    else
      std::snprintf(b, sizeof b, "%lld", s);
    return b;
  }
};
static Raw
decode(const TypeInfo& t, const unsigned char* p, bool little_endian)
{
  unsigned char b[8];
  for (int i = 0; i < t.bytes; ++i)
    b[i] = little_endian ? p[i] : p[t.bytes - 1 - i]; // b = little-endian representation
  unsigned long long u = 0;
  for (int i = t.bytes - 1; i >= 0; --i)
    u = (u << 8) | b[i];
  Raw r;
  r.real = !t.integer;
  r.uns = !t.sgn;
  r.s = 0;
  r.u = u;
  r.r = 0;
  if (!t.integer)
    {
      if (t.bytes == 4)
        {
          float f;
          unsigned int u32 = static_cast<unsigned int>(u);
          std::memcpy(&f, &u32, 4);
          r.r = f;
        }
      else
        std::memcpy(&r.r, &u, 8);
    }
  else if (t.sgn)
    {
      if (t.bytes < 8 && (u >> (8 * t.bytes - 1)))
        r.s = static_cast<long long>(u) - (1LL << (8 * t.bytes));
      else
        r.s = static_cast<long long>(u);
    }
  return r;
}

// ------------------------------------------------------------------------------------------------ generated inputs
struct Geo
{
  int mn[3], mx[3];  // z y x
  float vox[3], org[3];
};
static const float NICE_VOX[] = { 1.F, 2.F, 2.5F, 3.F, 4.F, 5.F, 0.5F, 1.5F, 2.4F, 3.27F, 2.05941F, 4.0625F, 0.976562F, 6.75F, 2.08626F };
static const float NICE_ORG[] = { 0.F, 0.F, 2.4F, -3.5F, 6.4F, 10.F, -12.25F, 100.F, -0.3F, 31.5F, -250.F, 0.001F };

static Geo
gen_geo(vh::Rng& rng, int maxsize)
{
  Geo g;
  for (int a = 0; a < 3; ++a)
    {
      const int n = rng.range(0, 5) == 0 ? 1 : rng.range(1, maxsize);
      const int kind = rng.range(0, 5);
      int mn;
      if (kind == 0)
        mn = a == 0 ? 0 : -(n / 2); // the range the reader itself produces
      else if (kind == 1)
        mn = 0;
      else
        mn = rng.range(-9, 9);
      g.mn[a] = mn;
      g.mx[a] = mn + n - 1;
      g.vox[a] = rng.range(0, 3) == 0 ? static_cast<float>(0.3 + 7.0 * rng.unit()) : NICE_VOX[rng.range(0, 14)];
      g.org[a] = rng.range(0, 3) == 0 ? static_cast<float>(-300. + 600. * rng.unit()) : NICE_ORG[rng.range(0, 11)];
    }
  return g;
}

struct ExamSpec
{
  int modality; // ImagingModality::ImagingModalityValue
  int orient, rot;
  float cal, low, high;
  double start_time;
  std::vector<std::pair<double, double>> frames;
  std::string rn_name; // "" = not set
  float rn_hl, rn_br, rn_en;
};

static const char* PET_NUCLIDES[] = { "^18^Fluorine", "^11^Carbon", "^13^Nitrogen", "^15^Oxygen", "^68^Gallium" };

static ExamSpec
gen_exam(vh::Rng& rng, int nframes)
{
  ExamSpec e;
  const int m = rng.range(0, 9);
  e.modality = m < 6 ? ImagingModality::PT : m < 8 ? ImagingModality::NM : m == 8 ? ImagingModality::Unknown : ImagingModality::MR;
  e.orient = rng.range(0, 3);
  e.rot = rng.range(0, 5);
  const int c = rng.range(0, 3);
  e.cal = c == 0 ? -1.F : c == 1 ? 2.5F : c == 2 ? 0.0123F : static_cast<float>(0.001 + 50 * rng.unit());
  const int w = rng.range(0, 5);
  e.low = e.high = -1.F;
  if (w == 1)
    {
      e.low = 425.F;
      e.high = 650.F;
    }
  else if (w == 2)
    {
      e.low = static_cast<float>(rng.range(1, 300));
      e.high = e.low + static_cast<float>(rng.range(1, 400));
    }
  else if (w == 3)
    {
      e.low = 0.F; // "no lower threshold"
      e.high = 650.F;
    }
  else if (w == 4)
    {
      e.low = 126.45F;
      e.high = 154.55F;
    }
  e.start_time = rng.range(0, 2) == 0 ? 0. : 1277478034. + rng.range(0, 100000000);
  double t = rng.range(0, 3) == 0 ? 0. : 0.5 * rng.range(0, 200);
  for (int f = 0; f < nframes; ++f)
    {
      const double d = rng.range(0, 3) == 0 ? 0.25 * rng.range(1, 4000) : rng.range(1, 600);
      e.frames.push_back(std::make_pair(t, t + d));
      t += d + (rng.coin() ? 0. : 0.5 * rng.range(0, 20));
    }
  e.rn_name = "";
  e.rn_hl = e.rn_br = e.rn_en = -1.F;
  const int r = rng.range(0, 3);
  if (r == 1 && (e.modality == ImagingModality::PT || e.modality == ImagingModality::NM))
    e.rn_name = e.modality == ImagingModality::PT ? PET_NUCLIDES[rng.range(0, 4)] : "^99m^Technetium";
  else if (r == 2)
    {
      e.rn_name = "Verif-" + std::to_string(rng.range(1, 99));
      e.rn_hl = static_cast<float>(rng.range(10, 90000)) * 0.5F;
      e.rn_br = static_cast<float>(rng.range(1, 100)) * 0.01F;
      e.rn_en = 300.F;
    }
  return e;
}

static shared_ptr<ExamInfo>
make_exam(const ExamSpec& e, int only_frame /* 0 = all */)
{
  shared_ptr<ExamInfo> x(new ExamInfo(ImagingModality(static_cast<ImagingModality::ImagingModalityValue>(e.modality))));
  x->patient_position = PatientPosition(static_cast<PatientPosition::OrientationValue>(e.orient),
                                        static_cast<PatientPosition::RotationValue>(e.rot));
  x->set_calibration_factor(e.cal);
  x->set_low_energy_thres(e.low);
  x->set_high_energy_thres(e.high);
  x->start_time_in_secs_since_1970 = e.start_time;
  if (only_frame > 0)
    {
      x->time_frame_definitions.set_num_time_frames(1);
      x->time_frame_definitions.set_time_frame(1, e.frames[only_frame - 1].first, e.frames[only_frame - 1].second);
    }
  else
    {
      x->time_frame_definitions.set_num_time_frames(static_cast<int>(e.frames.size()));
      for (std::size_t f = 0; f < e.frames.size(); ++f)
        x->time_frame_definitions.set_time_frame(static_cast<int>(f + 1), e.frames[f].first, e.frames[f].second);
    }
  if (!e.rn_name.empty())
    {
      if (e.rn_hl > 0)
        x->set_radionuclide(Radionuclide(e.rn_name, e.rn_en, e.rn_br, e.rn_hl, x->imaging_modality));
      else
        {
          RadionuclideDB db;
          x->set_radionuclide(db.get_radionuclide(x->imaging_modality, e.rn_name));
        }
    }
  return x;
}

static shared_ptr<VoxelsOnCartesianGrid<float>>
make_image(const Geo& g, const shared_ptr<ExamInfo>& ex)
{
  IndexRange<3> range(CartesianCoordinate3D<int>(g.mn[0], g.mn[1], g.mn[2]), CartesianCoordinate3D<int>(g.mx[0], g.mx[1], g.mx[2]));
  return shared_ptr<VoxelsOnCartesianGrid<float>>(new VoxelsOnCartesianGrid<float>(
      ex, range, CartesianCoordinate3D<float>(g.org[0], g.org[1], g.org[2]), CartesianCoordinate3D<float>(g.vox[0], g.vox[1], g.vox[2])));
}

// value distributions
static const char* KIND_NAMES[] = { "mixed", "positive", "all-zero", "all-negative", "single-voxel", "small-integers",
                                    "huge",  "tiny",     "nonpositive-max0", "constant", "half-steps" };
static void
fill_values(vh::Rng& rng, int kind, Array<3, float>& im)
{
  static const double MAGS[] = { 1., 94.53, 1e4, 3.7e-3, 250., 0.5 };
  const double A = MAGS[rng.range(0, 5)];
  const long n = static_cast<long>(im.size_all());
  const long hot = rng.range(0, static_cast<int>(n - 1));
  const float cst = static_cast<float>((rng.coin() ? 1 : -1) * A * (0.1 + rng.unit()));
  long k = 0;
  for (auto it = im.begin_all(); it != im.end_all(); ++it, ++k)
    {
      double v = 0;
      switch (kind)
        {
        case 0:
          v = A * (2 * rng.unit() - 1);
          break;
        case 1:
          v = A * rng.unit();
          break;
        case 2:
          v = 0;
          break;
        case 3:
          v = -A * (0.01 + rng.unit());
          break;
        case 4:
          v = k == hot ? A * (0.5 + rng.unit()) : 0;
          break;
        case 5:
          v = rng.range(-5, 5);
          break;
        case 6:
          v = 1e30 * (2 * rng.unit() - 1);
          break;
        case 7:
          v = 1e-25 * (0.5 + 0.5 * rng.unit());
          break;
        case 8:
          v = (k % 3 == 0) ? 0. : -A * rng.unit();
          break;
        case 10: // multiples of 1/8: with the scale factor 1/4 every other quotient is an exact tie (k + 1/2)
          v = 0.125 * rng.range(-40, 40);
          break;
        default:
          v = cst;
          break;
        }
      *it = static_cast<float>(v);
    }
  if (kind == 8)
    *im.begin_all() = 0.F; // make sure the maximum is exactly 0
}

// scale_to_write_data settings: 0 = automatic
static float
gen_scale(vh::Rng& rng, const TypeInfo& t, const Array<3, float>& im, int setting)
{
  double amax = 0;
  for (auto it = im.begin_all(); it != im.end_all(); ++it)
    amax = std::max(amax, std::fabs(static_cast<double>(*it)));
  if (setting == 4)
    return 0.25F; // exact power of two (used with the half-steps distribution: exact ties)
  if (setting == 0)
    return 0.F;
  if (!t.integer)
    return setting == 1 ? 1.F : setting == 2 ? 0.5F : 3.F;
  const float needed = call_find_scale_factor(t, 0.F, im);
  if (setting == 1)
    return needed > 0 ? needed * 0.25F : 0.37F; // too small: must be overridden
  if (setting == 2)
    return needed > 0 ? needed * 2.5F : 1.5F; // larger than needed: must be used as given
  // setting 3: an absolute step, small enough that 32/64-bit output keeps quotients inside int
  return amax > 0 ? static_cast<float>(amax / (1000. + rng.range(0, 999000))) : 1.F;
}

// ------------------------------------------------------------------------------------------------ what is compared
static const double EPS_FMT = 5.01e-6;       // decimal formatting with 6 significant digits
static const double EPS_F = 5.9604644775390625e-08; // 2^-24

struct DataSet
{ // one 3D array as written and as read back
  const Array<3, float>* before;
  const Array<3, float>* after; // may be null (read failed)
};

// positions, sizes: original image `a` vs image read back `b`, header `h`
static void
oracle_geometry(const VoxelsOnCartesianGrid<float>& a, const DiscretisedDensity<3, float>& bden, const Hdr* h)
{
  const VoxelsOnCartesianGrid<float>* bp = dynamic_cast<const VoxelsOnCartesianGrid<float>*>(&bden);
  check(bp != nullptr, "image read back is not a VoxelsOnCartesianGrid");
  if (!bp)
    return;
  const VoxelsOnCartesianGrid<float>& b = *bp;
  BasicCoordinate<3, int> amn, amx, bmn, bmx;
  const bool ra = a.get_regular_range(amn, amx), rb = b.get_regular_range(bmn, bmx);
  check(ra && rb, "index range not regular");
  if (!ra || !rb)
    return;
  bool same_sizes = true;
  for (int d = 1; d <= 3; ++d)
    same_sizes = same_sizes && (amx[d] - amn[d] == bmx[d] - bmn[d]);
  check(same_sizes, "image read back has different sizes");
  if (!same_sizes)
    return;
  // header first pixel offset = physical position of the first voxel; voxel size key = grid spacing
  double fpo_h[4] = { 0, 0, 0, 0 }, vox_h[4] = { 0, 0, 0, 0 };
  const CartesianCoordinate3D<float> p0 = a.get_physical_coordinates_for_indices(amn);
  for (int d = 1; d <= 3; ++d)
    {
      const int k = 4 - d; // header index: x=[1], y=[2], z=[3]
      const double va = a.get_grid_spacing()[d], oa = a.get_origin()[d];
      vox_h[d] = va;
      fpo_h[d] = p0[d];
      if (h)
        {
          vox_h[d] = hnum(*h, "scalingfactor(mm/pixel)[" + std::to_string(k) + "]", -1e300);
          fpo_h[d] = hnum(*h, "firstpixeloffset(mm)[" + std::to_string(k) + "]", -1e300);
          check(std::fabs(vox_h[d] - va) <= EPS_FMT * std::fabs(va), "header voxel size differs from grid spacing by more than decimal formatting");
          check(std::fabs(fpo_h[d] - p0[d]) <= EPS_FMT * std::fabs(p0[d]) + 4 * EPS_F * (std::fabs(va * amn[d]) + std::fabs(oa)) + 1e-30,
                "header first pixel offset is not the physical position of the first voxel");
          check(hnum(*h, "matrixsize[" + std::to_string(k) + "]", -1) == amx[d] - amn[d] + 1, "header matrix size differs from the number of voxels");
        }
      const double vb = b.get_grid_spacing()[d];
      check(std::fabs(vb - va) <= std::min(std::fabs(vox_h[d] - va), EPS_FMT * std::fabs(va)) + 2 * EPS_F * std::fabs(va),
            "voxel size changed by the round trip");
    }
  // every voxel: physical position before = after
  long bad = 0;
  double worst = 0;
  for (int kz = 0; kz <= amx[1] - amn[1]; ++kz)
    for (int ky = 0; ky <= amx[2] - amn[2]; ++ky)
      for (int kx = 0; kx <= amx[3] - amn[3]; ++kx)
        {
          const int kk[4] = { 0, kz, ky, kx };
          const CartesianCoordinate3D<float> pa
              = a.get_physical_coordinates_for_indices(make_coordinate(amn[1] + kz, amn[2] + ky, amn[3] + kx));
          const CartesianCoordinate3D<float> pb
              = b.get_physical_coordinates_for_indices(make_coordinate(bmn[1] + kz, bmn[2] + ky, bmn[3] + kx));
          for (int d = 1; d <= 3; ++d)
            {
              const double va = std::fabs(a.get_grid_spacing()[d]), vb = std::fabs(b.get_grid_spacing()[d]);
              // error of the printed header numbers, but never more than 6-digit formatting allows
              const double fmt_err
                  = std::min(std::fabs(fpo_h[d] - p0[d]),
                             EPS_FMT * std::fabs(static_cast<double>(p0[d])) + 4 * EPS_F * (va * std::abs(amn[d]) + std::fabs(a.get_origin()[d])))
                    + kk[d] * std::min(std::fabs(vox_h[d] - a.get_grid_spacing()[d]), EPS_FMT * va);
              const double noise = 8 * EPS_F
                                   * (std::fabs(a.get_origin()[d]) + std::fabs(b.get_origin()[d]) + std::fabs(fpo_h[d])
                                      + va * (std::abs(amn[d]) + kk[d]) + vb * (std::abs(bmn[d]) + kk[d]))
                                   + 1e-30;
              const double err = std::fabs(static_cast<double>(pa[d]) - pb[d]);
              if (!(err <= fmt_err + noise))
                {
                  ++bad;
                  worst = std::max(worst, err);
                }
            }
        }
  check(bad == 0, "physical position of a voxel changed by the round trip (" + std::to_string(bad) + " coordinates, worst " + H(worst) + " mm)");
}

// does the dataset read back (`yv`) consist of the stored numbers `raw1` of the FIRST dataset of the file, decoded with
// this dataset's own header scale factor?  (the class of K6: the reader ignores the data offsets)
static bool
reads_as_first_dataset(const TypeInfo& t, const std::vector<float>& yv, const std::vector<Raw>& raw1, double s_hdr)
{
  if (raw1.size() != yv.size() || yv.empty())
    return false;
  for (std::size_t i = 0; i < yv.size(); ++i)
    {
      const double stored = static_cast<double>(static_cast<float>(raw1[i].as_double())); // read_data converts to float
      const double expect = t.integer || t.bytes == 8 ? stored * static_cast<double>(static_cast<float>(s_hdr)) : stored;
      if (!(std::fabs(static_cast<double>(yv[i]) - expect) <= 4 * EPS_F * std::fabs(expect) + 1e-44))
        return false;
    }
  return true;
}

// values of one dataset.  raw = numbers stored in the file (empty if unavailable), s_hdr = scale factor in the header.
// k6_raw1 != nullptr: this is dataset > 1 of an Interfile multi-dataset file written for modality NM; *k6_raw1 are the
// stored numbers of dataset 1.  The known finding K6 is reported (instead of a failure) ONLY when what was read back
// is exactly dataset 1 (decoded with this dataset's scale factor); the numbers stored in the file are checked in any case.
static void
oracle_values(const TypeInfo& t, float given, const Array<3, float>& x, const Array<3, float>* y, const std::vector<Raw>& raw,
              double s_hdr, const std::vector<Raw>* k6_raw1)
{
  const long n = static_cast<long>(x.size_all());
  std::vector<float> xv(x.begin_all(), x.end_all());
  std::vector<float> yv;
  if (y)
    yv.assign(y->begin_all(), y->end_all());
  bool all_zero = true;
  double amax = 0;
  for (float v : xv)
    {
      all_zero = all_zero && v == 0;
      amax = std::max(amax, std::fabs(static_cast<double>(v)));
    }
  // a failure of the values read back is the known class K6 iff the reader returned dataset 1 instead
  bool k6_reported = false;
  auto trip_is_k6 = [&]() {
    if (k6_reported)
      return true;
    if (k6_raw1 && y && reads_as_first_dataset(t, yv, *k6_raw1, s_hdr))
      {
        known_candidate(K6, K6_TEXT);
        k6_reported = true;
      }
    return k6_reported;
  };
  long bad_round = 0, bad_trip = 0, bad_range = 0, bad_neg_raw = 0, bad_neg_trip = 0, beyond_int = 0, k1_bad = 0;
  if (!t.integer)
    {
      if (t.bytes == 4)
        { // float output: exact, whatever scale was asked for
          for (long i = 0; i < n; ++i)
            {
              const float rf = raw.empty() ? 0.F : static_cast<float>(raw[i].r);
              if (!raw.empty() && std::memcmp(&xv[i], &rf, 4) != 0)
                ++bad_round;
              if (y && std::memcmp(&xv[i], &yv[i], 4) != 0)
                ++bad_trip;
            }
          check(s_hdr == 1., "float output written with a scale factor other than 1");
          check(bad_round == 0, "float output: stored numbers are not the voxel values");
          if (!(bad_trip && trip_is_k6()))
            check(bad_trip == 0, "float output: values not preserved exactly (" + std::to_string(bad_trip) + " voxels)");
          return;
        }
      // double output
      bool y_all_zero = y != nullptr;
      for (long i = 0; i < n; ++i)
        {
          if (y && !(std::fabs(static_cast<double>(yv[i]) - xv[i]) <= (4 * EPS_F + EPS_FMT) * std::fabs(static_cast<double>(xv[i]))))
            ++bad_trip;
          if (y && yv[i] != 0)
            y_all_zero = false;
          // stored double * header scale factor = value (the quotient is formed in binary32, the header has 6 digits)
          if (!raw.empty() && s_hdr != 0.
              && !(std::fabs(raw[i].r * s_hdr - xv[i]) <= (4 * EPS_F + EPS_FMT) * std::fabs(static_cast<double>(xv[i])) + 1e-44))
            ++bad_round;
        }
      if (given == 0.F && !all_zero && s_hdr == 0. && (y_all_zero || !y))
        { // exactly the class of K2: automatic scale, scale factor 0 in the header, zeros come back
          known_candidate(K2, "DOUBLE output with scale_to_write_data=0: find_scale_factor computes max/DBL_MAX*1.01, which is 0 as a float; "
                              "convert_range then takes the 'data contains only 0' branch and writes zeros (image max "
                                  + H(amax) + " read back as 0)");
          return;
        }
      check(s_hdr != 0. || all_zero, "double output: scale factor 0 written for an image that is not all zero");
      check(bad_round == 0, "double output: stored numbers times the header's scale factor are not the voxel values ("
                                + std::to_string(bad_round) + " voxels)");
      if (!(bad_trip && trip_is_k6()))
        check(bad_trip == 0, "double output: values not preserved (" + std::to_string(bad_trip) + " voxels)");
      return;
    }
  // scaled integer output
  if (s_hdr == 0.)
    {
      bool nothing_representable = true; // all zero, or (unsigned output) nothing positive
      for (float v : xv)
        nothing_representable = nothing_representable && (t.sgn ? v == 0 : v <= 0);
      check(nothing_representable, "scale factor 0 written for an image that has non-zero representable values");
      long bad_raw0 = 0;
      for (long i = 0; i < n; ++i)
        {
          if (y && yv[i] != 0)
            ++bad_trip;
          if (!raw.empty() && raw[i].as_double() != 0)
            ++bad_raw0;
        }
      check(bad_raw0 == 0, "scale factor 0 in the header but non-zero numbers stored");
      check(bad_trip == 0, "all-zero image not read back as zero"); // (0 * anything: also true when dataset 1 was read instead)
      return;
    }
  const double s = s_hdr;
  for (long i = 0; i < n; ++i)
    {
      const double xi = xv[i];
      if (!t.sgn && xi < 0)
        { // negative -> 0 for unsigned
          if (!raw.empty() && raw[i].as_double() != 0)
            ++bad_neg_raw;
          if (y && yv[i] != 0)
            ++bad_neg_trip;
          continue;
        }
      const double ideal = xi / s;
      const double slack = (EPS_FMT + 4 * EPS_F) * std::fabs(ideal);
      if (!(ideal <= t.maxv + 0.5 + slack && ideal >= t.minv - 0.5 - slack))
        ++bad_range;
      const bool round_ok = raw.empty() || std::fabs(raw[i].as_double() - ideal) <= 0.5 + slack + 4 * EPS_F;
      const bool trip_ok = !y || std::fabs(static_cast<double>(yv[i]) - xi) <= std::fabs(s) / 2 + (EPS_FMT + 8 * EPS_F) * std::fabs(xi) + 1e-44;
      // K1 concerns exactly the voxels whose quotient value/scale does not fit stir::round's return type int
      // (quotient known here up to the 6 digits of the header's scale factor and binary32 rounding)
      if (std::fabs(ideal) + slack + 0.5 >= 2147483648.)
        {
          ++beyond_int;
          if (!round_ok || !trip_ok)
            ++k1_bad;
          continue;
        }
      if (!round_ok)
        ++bad_round;
      if (!trip_ok)
        ++bad_trip;
    }
  if (k1_bad)
    known_candidate(K1, std::string("convert_range rounds with stir::round(float), which returns int: for ") + t.tag
                            + " output the quotient value/scale reaches 2^31 and the conversion overflows (" + std::to_string(k1_bad) + " of "
                            + std::to_string(beyond_int) + " such voxels stored or read back wrong; every other voxel is checked)");
  if (beyond_int)
    g_cover["values:voxels-with-quotient-beyond-int32"] += beyond_int;
  if (t.maxv > 2147483647.)
    g_cover["values:voxels-of-uint-long-ulong-output-checked-strictly"] += n - beyond_int;
  if ((bad_range || bad_round || bad_trip) && std::fabs(s) < 1.17549435e-38)
    { // the float scale factor is subnormal (64-bit output of values around 1e-25, or such a scale_to_write_data requested)
      known_candidate(K8, std::string("the scale factor is a float: for ") + t.tag + " output of values around " + H(amax) + " it is subnormal (" + H(s)
                              + "): (a) its rounding error exceeds the safety factor 1.01 of find_scale_factor, value/scale lies outside the type's range ("
                              + std::to_string(bad_range) + " voxels); (b) STIR's CMake adds -ffast-math to Release builds, convert_range then multiplies by "
                                "1/scale, which is inf below 2^-128, and a voxel with value 0 becomes 0*inf = NaN and is stored as garbage ("
                              + std::to_string(bad_round) + " stored numbers, " + std::to_string(bad_trip) + " voxels read back wrong)");
      bad_range = bad_round = bad_trip = 0;
    }
  check(bad_range == 0, "scaled integer output overflows the chosen type (" + std::to_string(bad_range) + " voxels: value/scale outside the type's range, scale "
                            + H(s) + ")");
  check(bad_neg_raw == 0, "negative value not stored as 0 for unsigned output");
  check(bad_round == 0, "stored integer is not the rounded quotient value/scale (" + std::to_string(bad_round)
                            + " voxels whose quotient fits an int)");
  if (!((bad_trip || bad_neg_trip) && trip_is_k6()))
    {
      check(bad_neg_trip == 0, "negative value not read back as 0 for unsigned output");
      check(bad_trip == 0, "value not preserved within half a quantisation step (" + std::to_string(bad_trip) + " voxels whose quotient fits an int)");
    }
}

static std::string
exam_line(const ExamInfo& e)
{
  std::vector<std::string> t;
  t.push_back(std::to_string(static_cast<int>(e.imaging_modality.get_modality())));
  t.push_back(std::to_string(static_cast<int>(e.patient_position.get_orientation())));
  t.push_back(std::to_string(static_cast<int>(e.patient_position.get_rotation())));
  t.push_back(H(e.get_calibration_factor()));
  t.push_back(H(e.get_low_energy_thres()));
  t.push_back(H(e.get_high_energy_thres()));
  const Radionuclide rn = e.get_radionuclide();
  t.push_back(rn.get_name().empty() ? "-" : rn.get_name());
  t.push_back(H(rn.get_half_life(false)));
  t.push_back(H(rn.get_branching_ratio(false)));
  return join(t);
}
static std::string
frames_str(const TimeFrameDefinitions& f)
{
  std::string s = std::to_string(f.get_num_frames());
  for (unsigned i = 1; i <= f.get_num_frames(); ++i)
    s += " " + H(f.get_start_time(i)) + " " + H(f.get_end_time(i));
  return s;
}
static bool
close_rel(double a, double b, double rel, double abs_ = 0)
{
  return std::fabs(a - b) <= rel * std::max(std::fabs(a), std::fabs(b)) + abs_;
}

// exam information: before vs after, and the exam operation `op` for the model:
//   "exam"      the header's exam information (dynamic / parametric Interfile image)
//   "exams"     a single image: read_interfile_image keeps the first time frame only
//   "examf <f>" member f of a dynamic Interfile image: the header's exam information with time frame f alone
//   ""          no operation
// a_hdr = exam information that was written to the header (differs from `a` for "examf": all frames)
static void
exam_checks(const ExamInfo& a, const ExamInfo& b, const std::string& op_name, const ExamInfo* a_hdr = nullptr)
{
  const bool single_reader = op_name == "exams";
  if (!op_name.empty())
    {
      const ExamInfo& w = a_hdr ? *a_hdr : a;
      // what RadionuclideDB answers for the name the reader will look up
      const Radionuclide ra = w.get_radionuclide();
      const bool written_name = !ra.get_name().empty() && ra.get_name() != "Unknown";
      RadionuclideDB db;
      const Radionuclide rdb = db.get_radionuclide(w.imaging_modality, written_name ? ra.get_name() : std::string(""));
      std::string op = op_name + " " + exam_line(w) + " " + H(rdb.get_half_life(false)) + " " + H(rdb.get_branching_ratio(false)) + " "
                       + frames_str(w.time_frame_definitions);
      emit(op, exam_line(b) + " " + frames_str(b.time_frame_definitions));
      g_cover["examop:" + op_name.substr(0, op_name.find(' '))]++;
    }
  const long fails_before = g_fails;
  check(a.imaging_modality == b.imaging_modality, "imaging modality changed by the round trip");
  check(a.patient_position.get_orientation() == b.patient_position.get_orientation(), "patient orientation changed by the round trip");
  // every rotation, including the decubitus positions left / right (repaired in /repo by 697526ee8: a regression is a violation)
  check(a.patient_position.get_rotation() == b.patient_position.get_rotation(), "patient rotation changed by the round trip");
  if (a.patient_position.get_rotation() == PatientPosition::left || a.patient_position.get_rotation() == PatientPosition::right)
    g_cover["exam:rotation-left-or-right"]++;
  if (a.get_calibration_factor() > 0)
    check(close_rel(a.get_calibration_factor(), b.get_calibration_factor(), EPS_FMT + 2 * EPS_F), "calibration factor changed by the round trip");
  else
    check(b.get_calibration_factor() <= 0, "calibration factor appeared from nowhere");
  if (a.get_high_energy_thres() > 0 && a.get_low_energy_thres() >= 0)
    { // the writer stores the window, also with lower threshold 0 (reader repaired in /repo by ccc9f5cdc: a regression is a violation)
      check(close_rel(a.get_high_energy_thres(), b.get_high_energy_thres(), EPS_FMT + 2 * EPS_F)
                && close_rel(a.get_low_energy_thres(), b.get_low_energy_thres(), EPS_FMT + 2 * EPS_F),
            "energy window changed by the round trip");
      if (a.get_low_energy_thres() == 0)
        g_cover["exam:window-with-lower-threshold-0"]++;
    }
  const TimeFrameDefinitions &fa = a.time_frame_definitions, &fb = b.time_frame_definitions;
  const bool first_frame_only = single_reader && fa.get_num_frames() > 1;
  if (fa.get_num_frames() == 0)
    check(fb.get_num_frames() == 0 || (fb.get_num_frames() == 1 && fb.get_start_time(1) == 0 && fb.get_end_time(1) == 0),
          "time frames appeared from nowhere");
  else if (first_frame_only)
    { // documented behaviour of read_interfile_image ("Only the first will be kept"): a DiscretisedDensity is one frame
      g_cover["exam:single-image-with-several-time-frames"]++;
      check(fb.get_num_frames() == 1 && close_rel(fa.get_start_time(1), fb.get_start_time(1), EPS_FMT, 1e-9)
                && close_rel(fa.get_end_time(1), fb.get_end_time(1), 2 * EPS_FMT, 1e-9),
            "single image written with several time frames: the first one is not what is read back");
    }
  else
    {
      bool ok = fa.get_num_frames() == fb.get_num_frames();
      for (unsigned i = 1; ok && i <= fa.get_num_frames(); ++i)
        ok = close_rel(fa.get_start_time(i), fb.get_start_time(i), EPS_FMT, 1e-9) && close_rel(fa.get_end_time(i), fb.get_end_time(i), 2 * EPS_FMT, 1e-9);
      check(ok, "time frame definitions changed by the round trip");
    }
  if (a.start_time_in_secs_since_1970 > 0)
    check(std::fabs(a.start_time_in_secs_since_1970 - b.start_time_in_secs_since_1970) <= 0.5, "scan start time changed by the round trip");
  const Radionuclide ra = a.get_radionuclide(), rb = b.get_radionuclide();
  if (!ra.get_name().empty() && ra.get_name() != "Unknown")
    {
      check(ra.get_name() == rb.get_name(), "radionuclide name changed by the round trip");
      if (ra.get_half_life(false) > 0)
        check(close_rel(ra.get_half_life(false), rb.get_half_life(false), EPS_FMT + 2 * EPS_F), "radionuclide half life changed by the round trip");
      if (ra.get_branching_ratio(false) > 0)
        check(close_rel(ra.get_branching_ratio(false), rb.get_branching_ratio(false), EPS_FMT + 2 * EPS_F),
              "radionuclide branching ratio changed by the round trip");
    }
  // the library's own comparison must agree when every stored field survived and nothing was unset
  // (unset fields come back as defaults: default radionuclide for the modality, one empty time frame, ...)
  const bool all_fields_ok = g_fails == fails_before;
  const bool everything_set = ra.get_name() != "Unknown" && !ra.get_name().empty() && fa.get_num_frames() > 0
                              && std::fabs(ra.get_energy(false) - rb.get_energy(false)) <= 0.05
                              && !(a.get_high_energy_thres() > 0 && a.get_low_energy_thres() < 0)
                              && !(a.get_high_energy_thres() <= 0 && a.get_low_energy_thres() > 0);
  if (all_fields_ok && everything_set && !first_frame_only)
    {
      g_cover["exam:operator=="]++;
      check(a == b, "ExamInfo::operator== says the exam information differs although every field survived");
    }
}

// ------------------------------------------------------------------------------------------------ output format set-up
static std::string
interfile_params(const TypeInfo& t, bool little, float scale)
{
  std::ostringstream s;
  s << "Interfile Output File Format Parameters:=\n"
    << " number format := " << t.number_format << "\n"
    << " number_of_bytes_per_pixel := " << t.bytes << "\n"
    << " byte order := " << (little ? "LITTLEENDIAN" : "BIGENDIAN") << "\n";
  char b[64];
  std::snprintf(b, sizeof b, "%.9g", static_cast<double>(scale));
  s << " scale_to_write_data := " << b << "\n"
    << "End Interfile Output File Format Parameters:=\n";
  return s.str();
}

template <class FormatT>
static bool
configure(FormatT& fmt, const TypeInfo& t, bool little, float scale, bool by_parsing)
{
  if (by_parsing)
    {
      std::istringstream in(interfile_params(t, little, scale));
      if (!fmt.parse(in))
        return false;
      return true;
    }
  fmt.set_type_of_numbers(NumericType(t.id));
  fmt.set_byte_order(little ? ByteOrder::little_endian : ByteOrder::big_endian);
  fmt.set_scale_to_write_data(scale);
  return true;
}

static std::vector<Raw>
decode_all(const TypeInfo& t, const std::string& bytes, long offset, long n, bool little)
{
  std::vector<Raw> r;
  if (static_cast<long>(bytes.size()) < offset + n * t.bytes)
    return r;
  for (long i = 0; i < n; ++i)
    r.push_back(decode(t, reinterpret_cast<const unsigned char*>(bytes.data()) + offset + i * t.bytes, little));
  return r;
}

static void
emit_conv(const TypeInfo& t, float given, const Array<3, float>& x, int rowlen, const std::string& s_hdr_str, const std::vector<Raw>& raw)
{
  std::string op = std::string("conv ") + t.tag + " " + H(given) + " " + std::to_string(rowlen) + " " + std::to_string(x.size_all());
  for (auto it = x.begin_all(); it != x.end_all(); ++it)
    op += " " + H(*it);
  std::string ans = s_hdr_str + " |";
  if (raw.empty())
    ans += " fail";
  else
    for (const Raw& r : raw)
      ans += " " + r.str();
  emit(op, ans);
}

static void
emit_fsf(const TypeInfo& t, float given, const Array<3, float>& x)
{
  float mx = *x.begin_all(), mn = *x.begin_all();
  for (auto it = x.begin_all(); it != x.end_all(); ++it)
    {
      mx = std::max(mx, *it);
      mn = std::min(mn, *it);
    }
  emit(std::string("fsf ") + t.tag + " " + H(given) + " " + H(mx) + " " + H(mn), H(call_find_scale_factor(t, given, x)));
}

static void
emit_whdr_rhdr(const Geo& g, const Hdr& h, const DiscretisedDensity<3, float>* rd)
{
  std::vector<std::string> a;
  for (int d = 0; d < 3; ++d)
    a.push_back(std::to_string(g.mn[d]));
  for (int d = 0; d < 3; ++d)
    a.push_back(std::to_string(g.mx[d]));
  for (int d = 0; d < 3; ++d)
    a.push_back(H(g.vox[d]));
  for (int d = 0; d < 3; ++d)
    a.push_back(H(g.org[d]));
  std::vector<std::string> hv;
  for (const char* key : { "matrixsize", "scalingfactor(mm/pixel)", "firstpixeloffset(mm)" })
    for (int k = 1; k <= 3; ++k)
      hv.push_back(hget(h, std::string(key) + "[" + std::to_string(k) + "]"));
  emit("whdr " + join(a), join(hv));
  if (rd)
    {
      const VoxelsOnCartesianGrid<float>* v = dynamic_cast<const VoxelsOnCartesianGrid<float>*>(rd);
      BasicCoordinate<3, int> mn, mx;
      if (v && v->get_regular_range(mn, mx))
        {
          std::vector<std::string> r;
          for (int d = 1; d <= 3; ++d)
            r.push_back(std::to_string(mn[d]));
          for (int d = 1; d <= 3; ++d)
            r.push_back(std::to_string(mx[d]));
          for (int d = 1; d <= 3; ++d)
            r.push_back(H(v->get_grid_spacing()[d]));
          for (int d = 1; d <= 3; ++d)
            r.push_back(H(v->get_origin()[d]));
          emit("rhdr " + join(hv), join(r));
        }
    }
}

static void
remove_files(const std::string& base)
{
  for (const char* ext : { ".hv", ".v", ".ahv", ".txt", "" })
    ::unlink((base + ext).c_str());
}

// does read_from_file succeed (true) or report an error (false)?
template <class DataT>
static bool
can_read(const std::string& header)
{
  try
    {
      unique_ptr<DataT> p(read_from_file<DataT>(header));
      return !is_null_ptr(p);
    }
  catch (...)
    {
      return false;
    }
}

// fault stream: truncate one data file at a sample of lengths; read_from_file must report an error.
//   marks      = byte positions of interest in this file (starts of the data sets)
//   need       = number of bytes the header(s) announce for this file (last offset + size of a data set)
//   need_k6    = -1, or (K6: the reader takes every data set from offset 0) the length from which the reader succeeds
//   op_of_len  = the operation line for the model, given the length of the file
template <class DataT, class OpOfLen>
static void
truncation_stream(vh::Rng& rng, const std::string& header, const std::string& datafile, const std::vector<long>& marks, long need,
                  long need_k6, int bytes, bool thorough, OpOfLen op_of_len)
{
  const std::string full = read_bytes(datafile);
  const long L = static_cast<long>(full.size());
  std::set<long> lens;
  if (L <= (thorough ? 400 : 48))
    for (long l = 0; l <= L; ++l)
      lens.insert(l);
  else
    {
      lens.insert(0);
      lens.insert(1);
      lens.insert(L - 1);
      lens.insert(L);
      lens.insert(need - 1);
      lens.insert(need - bytes);
      for (long m : marks)
        {
          lens.insert(m);
          lens.insert(m - 1);
          lens.insert(m + bytes);
        }
      if (need_k6 >= 0)
        {
          lens.insert(need_k6 - 1);
          lens.insert(need_k6);
        }
      for (int k = 0; k < (thorough ? 24 : 6); ++k)
        lens.insert(rng.range(0, static_cast<int>(L)));
    }
  lens.insert(L + 3); // a longer file is fine
  for (long l : lens)
    {
      if (l < 0)
        continue;
      std::string cut = l <= L ? full.substr(0, static_cast<std::size_t>(l)) : full + std::string(static_cast<std::size_t>(l - L), '\0');
      write_bytes(datafile, cut);
      const bool ok = can_read<DataT>(header);
      emit(op_of_len(l), ok ? "ok" : "err");
      if (l < need)
        {
          if (ok && need_k6 >= 0 && l >= need_k6)
            known_candidate(K6, K6_TEXT); // every data set was taken from offset 0: a file holding one data set is "complete"
          else
            check(!ok, "data file truncated to " + std::to_string(l) + " of " + std::to_string(need) + " bytes was returned as an image");
        }
      else
        check(ok, "complete data file rejected");
      g_cover[l < need ? "trunc:short" : "trunc:complete"]++;
    }
  write_bytes(datafile, full);
}

// ------------------------------------------------------------------------------------------------ single images
static void
single_case(vh::Rng& rng, const std::string& dir, long idx, int type_idx, bool little, int scale_setting, int kind, bool thorough)
{
  const TypeInfo& t = TYPES[type_idx];
  const Geo g = gen_geo(rng, thorough ? 12 : 9);
  const bool no_frames = rng.range(0, 9) == 0;
  // (a DiscretisedDensity is one time frame; frame definitions with several frames can nevertheless be attached and are written)
  ExamSpec es = gen_exam(rng, rng.range(0, 3) == 0 ? rng.range(2, 3) : 1);
  if (no_frames)
    es.frames.clear();
  shared_ptr<ExamInfo> ex = make_exam(es, 0);
  shared_ptr<VoxelsOnCartesianGrid<float>> im = make_image(g, ex);
  fill_values(rng, kind, *im);
  const float given = gen_scale(rng, t, *im, scale_setting);
  const int how = rng.range(0, 2); // 0 setters, 1 parsed parameters, 2 default format / free function (float only)
  const std::string base = dir + "/s" + std::to_string(idx);
  char cfg[256];
  std::snprintf(cfg, sizeof cfg, "cfg single %s %s scale=%s kind=%s how=%d case=%ld", t.tag, little ? "le" : "be", H(given).c_str(),
                KIND_NAMES[kind], how, idx);
  g_ctx = cfg;
  emit(cfg, "ok");
  g_cover[std::string("type:") + t.tag]++;
  g_cover[std::string("kind:") + KIND_NAMES[kind]]++;
  g_cover[std::string("scale-setting:") + std::to_string(scale_setting)]++;
  g_cover[little ? "byteorder:little" : "byteorder:big"]++;

  const VoxelsOnCartesianGrid<float> copy_before(*im);
  std::string fname = base;
  Succeeded ws = Succeeded::no;
  bool used_default = false;
  try
    {
      if (how == 2 && t.id == NumericType::FLOAT && little && given == 0.F)
        {
          used_default = true;
          if (rng.coin())
            {
              fname = write_to_file(base, *im);
              ws = Succeeded::yes;
            }
          else
            ws = OutputFileFormat<DiscretisedDensity<3, float>>::default_sptr()->write_to_file(fname, *im);
        }
      else
        {
          InterfileOutputFileFormat fmt;
          const bool cfg_ok = configure(fmt, t, little, given, how == 1);
          check(cfg_ok, "output file format parameters rejected");
          check(fmt.get_type_of_numbers() == NumericType(t.id), "output file format does not keep the requested number type");
          ws = fmt.write_to_file(fname, *im);
        }
    }
  catch (...)
    {
      ws = Succeeded::no;
    }
  check(ws == Succeeded::yes, "write_to_file failed");
  check(*im == copy_before && im->get_origin() == copy_before.get_origin(), "writing modified the image");
  const std::string hname = base + ".hv", dname = base + ".v";
  if (ws != Succeeded::yes || !file_exists(hname))
    {
      remove_files(base);
      return;
    }
  check(fname == hname, "write_to_file does not return the header file name");
  const Hdr h = parse_header(hname);
  // the header announces what was asked for
  check(hget(h, "numberformat") == t.number_format && hnum(h, "numberofbytesperpixel", -1) == t.bytes,
        "header announces another number type than requested");
  check(hget(h, "imagedatabyteorder") == ((used_default ? ByteOrder::get_native_order() == ByteOrder::little_endian : little) ? "LITTLEENDIAN" : "BIGENDIAN"),
        "header announces another byte order than requested");
  const bool file_little = hget(h, "imagedatabyteorder") == "LITTLEENDIAN";
  const std::string s_hdr_str = hget(h, "imagescalingfactor[1]", "1");
  const double s_hdr = std::strtod(s_hdr_str.c_str(), nullptr);
  const long n = static_cast<long>(im->size_all());
  const std::string bytes = read_bytes(dname);
  const std::vector<Raw> raw = decode_all(t, bytes, 0, n, file_little);
  const bool short_file = static_cast<long>(bytes.size()) < n * t.bytes;

  unique_ptr<DiscretisedDensity<3, float>> rd;
  try
    {
      rd = read_from_file<DiscretisedDensity<3, float>>(hname);
    }
  catch (std::exception& e)
    {
      if (std::getenv("C10_DEBUG"))
        std::fprintf(stderr, "read exception [%s]: %s\n", g_ctx.c_str(), e.what());
      rd.reset();
    }
  catch (...)
    {
      rd.reset();
    }

  // ---- correspondence operations
  emit_whdr_rhdr(g, h, rd.get());
  emit_fsf(t, given, *im);
  emit_conv(t, given, *im, g.mx[2] - g.mn[2] + 1, s_hdr_str, raw);

  // ---- oracle
  const float im_max = im->find_max(), im_min = im->find_min();
  if (short_file || !rd)
    {
      if (t.integer && !t.sgn && given == 0.F && im_max <= 0 && im_min < 0)
        known_candidate(K3, "unsigned integer output, scale_to_write_data=0, image maximum <= 0 with a row of negative values: find_scale_factor "
                            "gives a non-positive scale, the per-row check |new-scale| > scale*0.001 in write_data_with_fixed_scale_factor_help "
                            "fails, write_basic_interfile ignores the Succeeded::no and writes the header: write_to_file reports success, the data "
                            "file is short and read_from_file fails");
      else if (!short_file && !rd && es.frames.size() > 1 && s_hdr != 1.)
        known_candidate(K7, K7_TEXT);
      else
        {
          check(!short_file, "data file shorter than the header announces after a successful write_to_file");
          check(rd != nullptr, "read_from_file failed on a file written by write_to_file");
        }
    }
  if (rd)
    {
      oracle_geometry(*im, *rd, &h);
      oracle_values(t, given, *im, rd.get(), raw, s_hdr, nullptr);
      exam_checks(im->get_exam_info(), rd->get_exam_info(), "exams");
    }
  else
    oracle_geometry(*im, *im, &h); // header keys only
  // ---- fault stream
  if (rd && !short_file && (idx % 3 == 0 || n * t.bytes <= 48))
    truncation_stream<DiscretisedDensity<3, float>>(rng, hname, dname, std::vector<long>(1, 0L), n * t.bytes, -1, t.bytes, thorough, [&](long l) {
      return "trunc 0 " + std::to_string(n) + " " + std::to_string(t.bytes) + " " + std::to_string(l);
    });
  remove_files(base);
}

// ------------------------------------------------------------------------------------------------ dynamic / parametric containers
static std::string
multi_params(const std::string& inner)
{
  return "Multi Output File Format Parameters:=\n individual output file format type := interfile\n" + inner
         + "End Multi Output File Format Parameters:=\n";
}

// value distribution of a member of a container: every kind of the single images
static int
gen_member_kind(vh::Rng& rng)
{
  static const int ORDINARY[] = { 0, 1, 4, 5, 9, 10 };
  static const int CORNER[] = { 2, 3, 6, 7, 8 }; // all-zero, all-negative, huge, tiny, non-positive
  return rng.range(0, 2) == 0 ? CORNER[rng.range(0, 4)] : ORDINARY[rng.range(0, 5)];
}

// the output file format object for a container, set up in one of four ways
//   how 0: setters (Interfile formats only)            how 1: parse() of a parameter block
//   how 2: registry, by registered name + parameters   how 3: OutputFileFormat<DataT>::default_sptr() / write_to_file()
template <class DataT, class InterfileFormatT, class MultiFormatT>
static shared_ptr<OutputFileFormat<DataT>>
make_container_format(bool multi, int how, const TypeInfo& t, bool little, float given)
{
  const std::string params = multi ? multi_params(interfile_params(t, little, given)) : interfile_params(t, little, given);
  shared_ptr<OutputFileFormat<DataT>> fmt;
  if (how == 3)
    return OutputFileFormat<DataT>::default_sptr();
  if (how == 2)
    {
      std::istringstream in(params);
      fmt.reset(OutputFileFormat<DataT>::read_registered_object(&in, multi ? "Multi" : "Interfile"));
      check(!is_null_ptr(fmt), "output file format not found in the registry under its registered name");
      return fmt;
    }
  if (multi)
    {
      shared_ptr<MultiFormatT> m(new MultiFormatT);
      std::istringstream in(params);
      check(m->parse(in), "multi output file format parameters rejected");
      return m;
    }
  shared_ptr<InterfileFormatT> f(new InterfileFormatT);
  check(configure(*f, t, little, given, how == 1), "output file format parameters rejected");
  return f;
}

static void
container_case(vh::Rng& rng, const std::string& dir, long idx, bool parametric, bool multi, int type_idx, bool little_req, int scale_setting,
               int first_kind, bool thorough)
{
  const TypeInfo& t = TYPES[type_idx];
  const Geo g = gen_geo(rng, thorough ? 8 : 6);
  const int nsets = parametric ? 2 : rng.range(2, thorough ? 4 : 3);
  ExamSpec es = gen_exam(rng, parametric ? 1 : nsets);
  if (es.start_time == 0 && rng.coin())
    es.start_time = 1277478034.;
  const bool native_little = ByteOrder::get_native_order() == ByteOrder::little_endian;
  const std::string base = dir + "/" + (parametric ? "p" : "d") + (multi ? "m" : "i") + std::to_string(idx);
  // the datasets
  std::vector<shared_ptr<VoxelsOnCartesianGrid<float>>> sets;
  std::vector<int> kinds;
  for (int f = 1; f <= nsets; ++f)
    {
      shared_ptr<VoxelsOnCartesianGrid<float>> im = make_image(g, make_exam(es, parametric ? 0 : f));
      const int kind = f == 1 && first_kind >= 0 ? first_kind : gen_member_kind(rng);
      fill_values(rng, kind, *im);
      sets.push_back(im);
      kinds.push_back(kind);
      g_cover[std::string("ckind:") + KIND_NAMES[kind]]++;
    }
  float given = gen_scale(rng, t, *sets[rng.range(0, nsets - 1)], scale_setting);
  int how = rng.range(0, 2);
  // the default formats write float in the native order with automatic scale: used for half of the cases that ask for that
  if (t.id == NumericType::FLOAT && little_req == native_little && rng.coin())
    {
      how = 3;
      given = 0.F;
    }
  if (how == 0 && multi)
    how = 1; // the Multi formats have no setter for the format of the members
  // with how == 3 and Multi the default format of the members is used: Interfile, float, native order
  const bool multi_by_default_members = how == 3 && multi;
  char cfg[300];
  std::snprintf(cfg, sizeof cfg, "cfg %s-%s %s %s scale=%s sets=%d modality=%d how=%d case=%ld", parametric ? "parametric" : "dynamic",
                multi ? "multi" : "interfile", t.tag, little_req ? "le" : "be", H(given).c_str(), nsets, es.modality, how, idx);
  g_ctx = cfg;
  emit(cfg, "ok");
  g_cover[std::string(parametric ? "container:parametric-" : "container:dynamic-") + (multi ? "multi" : "interfile")]++;
  g_cover[std::string("ctype:") + t.tag]++;
  g_cover[little_req ? "cbyteorder:little" : "cbyteorder:big"]++;
  g_cover["chow:" + std::to_string(how)]++;
  g_cover["cscale-setting:" + std::to_string(scale_setting)]++;

  // the byte order the format says it will use: the Interfile container formats are "currently fixed to the native format"
  // (set_byte_order says so and returns the order used); the members of a Multi image are written as asked
  const bool little_expected = multi ? little_req : native_little;
  shared_ptr<DynamicDiscretisedDensity> dyn;
  shared_ptr<ParametricVoxelsOnCartesianGrid> par;
  std::string fname = base;
  Succeeded ws = Succeeded::no;
  try
    {
      if (parametric)
        {
          par.reset(new ParametricVoxelsOnCartesianGrid(ParametricVoxelsOnCartesianGridBaseType(
              sets[0]->get_exam_info_sptr(), sets[0]->get_index_range(), sets[0]->get_origin(), sets[0]->get_grid_spacing())));
          for (int f = 1; f <= nsets; ++f)
            par->update_parametric_image(*sets[f - 1], f);
          const ParametricVoxelsOnCartesianGrid par_before(*par);
          if (how == 3 && !multi && rng.coin())
            {
              fname = write_to_file(base, *par);
              ws = Succeeded::yes;
            }
          else
            {
              shared_ptr<OutputFileFormat<ParametricVoxelsOnCartesianGrid>> fmt
                  = multi_by_default_members
                        ? shared_ptr<OutputFileFormat<ParametricVoxelsOnCartesianGrid>>(
                            new MultiParametricDiscretisedDensityOutputFileFormat<ParametricVoxelsOnCartesianGridBaseType>)
                        : make_container_format<ParametricVoxelsOnCartesianGrid,
                                                InterfileParametricDiscretisedDensityOutputFileFormat<ParametricVoxelsOnCartesianGridBaseType>,
                                                MultiParametricDiscretisedDensityOutputFileFormat<ParametricVoxelsOnCartesianGridBaseType>>(
                            multi, how, t, little_req, given);
              if (!is_null_ptr(fmt))
                {
                  if (how != 3)
                    {
                      if (!multi) // (a Multi format keeps the number type in the format of its members)
                        check(fmt->get_type_of_numbers() == NumericType(t.id), "container output file format does not keep the requested number type");
                      if (!multi)
                        check((fmt->get_byte_order() == ByteOrder::little_endian) == little_expected,
                              "Interfile container format reports another byte order than the native one it is fixed to");
                    }
                  ws = fmt->write_to_file(fname, *par);
                }
            }
          bool same = true;
          for (int f = 1; f <= nsets && same; ++f)
            same = par->construct_single_density(f) == par_before.construct_single_density(f);
          check(same, "writing modified the parametric image");
        }
      else
        {
          TimeFrameDefinitions tdefs;
          tdefs.set_num_time_frames(nsets);
          for (int f = 1; f <= nsets; ++f)
            tdefs.set_time_frame(f, es.frames[f - 1].first, es.frames[f - 1].second);
          shared_ptr<Scanner> scanner(new Scanner(Scanner::Advance));
          dyn.reset(new DynamicDiscretisedDensity(tdefs, es.start_time, scanner, sets[0]));
          {
            shared_ptr<ExamInfo> ed = make_exam(es, 0);
            dyn->set_exam_info(*ed);
          }
          for (int f = 1; f <= nsets; ++f)
            dyn->set_density(*sets[f - 1], f);
          if (how == 3 && !multi && rng.coin())
            {
              fname = write_to_file(base, *dyn);
              ws = Succeeded::yes;
            }
          else
            {
              shared_ptr<OutputFileFormat<DynamicDiscretisedDensity>> fmt
                  = multi_by_default_members
                        ? shared_ptr<OutputFileFormat<DynamicDiscretisedDensity>>(new MultiDynamicDiscretisedDensityOutputFileFormat)
                        : make_container_format<DynamicDiscretisedDensity, InterfileDynamicDiscretisedDensityOutputFileFormat,
                                                MultiDynamicDiscretisedDensityOutputFileFormat>(multi, how, t, little_req, given);
              if (!is_null_ptr(fmt))
                {
                  if (how != 3)
                    {
                      if (!multi) // (a Multi format keeps the number type in the format of its members)
                        check(fmt->get_type_of_numbers() == NumericType(t.id), "container output file format does not keep the requested number type");
                      if (!multi)
                        check((fmt->get_byte_order() == ByteOrder::little_endian) == little_expected,
                              "Interfile container format reports another byte order than the native one it is fixed to");
                    }
                  ws = fmt->write_to_file(fname, *dyn);
                }
            }
          bool same = true;
          for (int f = 1; f <= nsets && same; ++f)
            same = dyn->get_density(f) == *sets[f - 1];
          check(same, "writing modified the dynamic image");
        }
    }
  catch (...)
    {
      ws = Succeeded::no;
    }
  check(ws == Succeeded::yes, "write_to_file failed for a container");
  auto cleanup = [&]() {
    remove_files(base);
    for (int f = 1; f <= nsets; ++f)
      remove_files(base + "_" + std::to_string(f));
  };
  if (ws != Succeeded::yes)
    {
      cleanup();
      return;
    }
  check(fname == base + (multi ? ".txt" : ".hv"), "write_to_file does not return the name of the file to read");
  // read back
  shared_ptr<DynamicDiscretisedDensity> rdyn;
  shared_ptr<ParametricVoxelsOnCartesianGrid> rpar;
  bool read_ok = true;
  try
    {
      if (parametric)
        rpar = read_from_file<ParametricVoxelsOnCartesianGrid>(fname);
      else
        rdyn = read_from_file<DynamicDiscretisedDensity>(fname);
    }
  catch (...)
    {
      read_ok = false;
    }
  if (read_ok && (parametric ? is_null_ptr(rpar) : is_null_ptr(rdyn)))
    read_ok = false;
  const long n = static_cast<long>(sets[0]->size_all());
  const int rowlen = g.mx[2] - g.mn[2] + 1;
  bool any_short = false;
  bool k3_possible = false;
  for (int f = 1; f <= nsets; ++f)
    if (t.integer && !t.sgn && given == 0.F && sets[f - 1]->find_max() <= 0 && sets[f - 1]->find_min() < 0)
      k3_possible = true;
  // per dataset: header(s), stored numbers
  std::vector<std::vector<Raw>> raws(nsets);
  std::vector<double> s_hdrs(nsets, 1.);
  std::vector<long> offsets(nsets, 0);
  std::vector<Hdr> hdrs(nsets);
  std::vector<std::string> s_strs, dnames;
  for (int f = 1; f <= nsets; ++f)
    {
      const std::string hname = multi ? base + "_" + std::to_string(f) + ".hv" : base + ".hv";
      const std::string dname = multi ? base + "_" + std::to_string(f) + ".v" : base + ".v";
      const Hdr h = parse_header(hname);
      hdrs[f - 1] = h;
      const std::string key = multi ? "1" : std::to_string(f);
      const std::string s_str = hget(h, "imagescalingfactor[" + key + "]", "1");
      s_hdrs[f - 1] = std::strtod(s_str.c_str(), nullptr);
      offsets[f - 1] = multi ? 0 : static_cast<long>(hnum(h, "dataoffsetinbytes[" + key + "]", 0));
      // the header announces what was asked for, and the byte order the format said it would use
      check(hget(h, "numberformat") == t.number_format && hnum(h, "numberofbytesperpixel", -1) == t.bytes,
            "header announces another number type than requested");
      check(hget(h, "imagedatabyteorder") == (little_expected ? "LITTLEENDIAN" : "BIGENDIAN"),
            "container header announces another byte order than the format reports");
      const bool file_little = hget(h, "imagedatabyteorder") == "LITTLEENDIAN";
      const std::string bytes = read_bytes(dname);
      raws[f - 1] = decode_all(t, bytes, offsets[f - 1], n, file_little);
      // the data file must hold exactly what the header(s) announce
      if (raws[f - 1].empty() || static_cast<long>(bytes.size()) != (multi ? 1 : nsets) * n * t.bytes)
        any_short = true;
      emit_fsf(t, given, *sets[f - 1]);
      s_strs.push_back(s_str);
      dnames.push_back(dname);
    }
  // data offsets announced in the header of an Interfile container = running sum of the data set sizes
  if (!multi && !k3_possible)
    {
      std::string offs;
      for (int f = 1; f <= nsets; ++f)
        offs += (f > 1 ? " " : "") + std::to_string(offsets[f - 1]);
      emit("offs " + std::to_string(nsets) + " " + std::to_string(n) + " " + std::to_string(t.bytes), offs);
      for (int f = 1; f <= nsets; ++f)
        check(offsets[f - 1] == (f - 1) * n * t.bytes, "data offset of a dataset is not the sum of the sizes of the previous ones");
    }
  // (if the data file does not have the announced size the datasets cannot be located in it: no `conv` operations then)
  if (!any_short)
    for (int f = 1; f <= nsets; ++f)
      emit_conv(t, given, *sets[f - 1], rowlen, s_strs[f - 1], raws[f - 1]);
  // geometry keys of every header, and the geometry of every member read back
  for (int f = 1; f <= (multi ? nsets : 1); ++f)
    {
      if (!read_ok)
        emit_whdr_rhdr(g, hdrs[f - 1], nullptr);
      else if (parametric)
        {
          const VoxelsOnCartesianGrid<float> rs = rpar->construct_single_density(f);
          emit_whdr_rhdr(g, hdrs[f - 1], &rs);
        }
      else if (static_cast<unsigned>(f) <= rdyn->get_num_time_frames())
        emit_whdr_rhdr(g, hdrs[f - 1], &rdyn->get_density(f));
    }
  if (any_short || !read_ok)
    {
      if (k3_possible)
        known_candidate(K3, "unsigned integer output of a non-positive dataset with automatic scale: write_data fails, the failure is ignored "
                            "and the container's data file is short");
      else
        {
          check(!any_short, "container data file shorter than announced after a successful write_to_file");
          check(read_ok, "read_from_file failed on a container written by write_to_file");
        }
      cleanup();
      return;
    }
  // K6 (known finding) can only concern data sets > 1 of a PARAMETRIC Interfile image written for modality NM
  // (read_interfile_dynamic_image lets a frame without a parsed offset follow the previous one since repo commit 0e66b8adc:
  // dynamic NM images are checked strictly)
  const bool k6 = !multi && parametric && es.modality == ImagingModality::NM;
  const bool nm_container = !multi && es.modality == ImagingModality::NM;
  if (nm_container)
    g_cover[parametric ? "container:NM-parametric-interfile" : "container:NM-dynamic-interfile-checked-strictly"]++;
  if (parametric)
    {
      check(rpar->get_num_params() == static_cast<unsigned>(nsets), "number of parameters changed");
      for (int f = 1; f <= nsets; ++f)
        {
          const VoxelsOnCartesianGrid<float> rs = rpar->construct_single_density(f);
          oracle_geometry(*sets[f - 1], rs, &hdrs[f - 1]);
          oracle_values(t, given, *sets[f - 1], &rs, raws[f - 1], s_hdrs[f - 1], k6 && f > 1 ? &raws[0] : nullptr);
          // every member: the full exam information (the members of a parametric image share the container's)
          exam_checks(sets[f - 1]->get_exam_info(), rs.get_exam_info(), multi && f == 1 ? "exams" : "");
        }
      exam_checks(par->get_exam_info(), rpar->get_exam_info(), multi ? "" : "exam");
    }
  else
    {
      check(rdyn->get_num_time_frames() == static_cast<unsigned>(nsets), "number of time frames changed");
      if (rdyn->get_num_time_frames() == static_cast<unsigned>(nsets))
        {
          for (int f = 1; f <= nsets; ++f)
            {
              const DiscretisedDensity<3, float>& rs = rdyn->get_density(f);
              oracle_geometry(*sets[f - 1], rs, &hdrs[f - 1]);
              oracle_values(t, given, *sets[f - 1], &rs, raws[f - 1], s_hdrs[f - 1], k6 && f > 1 ? &raws[0] : nullptr);
              // every member: modality, patient position, radionuclide, energy window, calibration factor and its own time frame
              if (multi)
                exam_checks(sets[f - 1]->get_exam_info(), rs.get_exam_info(), "exams");
              else
                exam_checks(sets[f - 1]->get_exam_info(), rs.get_exam_info(), "examf " + std::to_string(f), &dyn->get_exam_info());
            }
          if (multi)
            { // the container's exam information is assembled from the members read back
              std::string op = "examm " + exam_line(rdyn->get_density(1).get_exam_info()) + " " + std::to_string(nsets);
              for (int f = 1; f <= nsets; ++f)
                {
                  const TimeFrameDefinitions& tf = rdyn->get_density(f).get_exam_info().time_frame_definitions;
                  op += " " + H(tf.get_num_frames() >= 1 ? tf.get_start_time(1) : 0.) + " " + H(tf.get_num_frames() >= 1 ? tf.get_end_time(1) : 0.);
                }
              emit(op, exam_line(rdyn->get_exam_info()) + " " + frames_str(rdyn->get_exam_info().time_frame_definitions));
            }
        }
      exam_checks(dyn->get_exam_info(), rdyn->get_exam_info(), multi ? "" : "exam");
    }
  // fault stream: every data file of the container (half of the cases; NOT by the parity of idx, which is that of `parametric`)
  if (rng.coin())
    {
      for (int f = 1; f <= (multi ? nsets : 1); ++f)
        {
          std::vector<long> marks;
          long need, need_k6 = -1;
          if (multi)
            {
              marks.push_back(0);
              need = n * t.bytes;
            }
          else
            {
              marks = offsets;
              need = offsets[nsets - 1] + n * t.bytes;
              if (k6)
                need_k6 = n * t.bytes;
            }
          auto op_of_len = [&](long l) {
            std::string op;
            if (multi)
              {
                op = "mtrunc " + std::to_string(n) + " " + std::to_string(t.bytes);
                for (int k = 1; k <= nsets; ++k)
                  op += " " + std::to_string(k == f ? l : file_size(dnames[k - 1]));
              }
            else
              {
                op = std::string("ctrunc ") + (parametric ? "0" : "1") + " " + (nm_container ? "1" : "0") + " " + std::to_string(n) + " " + std::to_string(t.bytes) + " " + std::to_string(l);
                for (int k = 1; k <= nsets; ++k)
                  op += " " + std::to_string(offsets[k - 1]);
              }
            return op;
          };
          g_cover[multi ? "trunc-file:multi-member"
                        : (nm_container ? (parametric ? "trunc-file:interfile-parametric-NM" : "trunc-file:interfile-dynamic-NM")
                                        : "trunc-file:interfile-container")]++;
          if (parametric)
            truncation_stream<ParametricVoxelsOnCartesianGrid>(rng, fname, dnames[f - 1], marks, need, need_k6, t.bytes, thorough, op_of_len);
          else
            truncation_stream<DynamicDiscretisedDensity>(rng, fname, dnames[f - 1], marks, need, need_k6, t.bytes, thorough, op_of_len);
        }
    }
  cleanup();
}

// the output file formats registered in this build, per data type (COVER lines; exercised: Interfile, Multi)
template <class DataT>
static void
list_registry(const std::string& what)
{
  std::ostringstream o;
  OutputFileFormat<DataT>::list_registered_names(o);
  std::istringstream in(o.str());
  std::string name;
  while (std::getline(in, name))
    {
      std::string k;
      for (char c : name)
        if (c != ' ' && c != '\t' && c != '\r')
          k += c;
      if (!k.empty() && k != "None") // ("None" is the registry's name for the null pointer)
        g_cover["registry:" + what + ":" + k] = 1;
    }
}

// ------------------------------------------------------------------------------------------------ main
int
main(int argc, char** argv)
{
  if (argc < 5)
    return 2;
  vh::quiet();
  const unsigned long long seed = std::strtoull(argv[1], nullptr, 10);
  vh::Rng rng(seed * 1315423911ULL + 10);
  const bool thorough = std::string(argv[2]) == "thorough";
  g_ops = std::fopen(argv[3], "w");
  g_out = std::fopen(argv[4], "w");
  g_orc = std::fopen((std::string(argv[4]) + ".oracle").c_str(), "w");
  if (!g_ops || !g_out || !g_orc)
    return 2;
  // STIR's error messages can contain bytes that are not text (read_interfile_image prints an uninitialised file name when
  // the header does not parse): keep them out of the pipe of the caller, in <implfile>.stderr
  if (!std::getenv("C10_DEBUG"))
    {
      const int fd = ::open((std::string(argv[4]) + ".stderr").c_str(), O_WRONLY | O_CREAT | O_TRUNC, 0666);
      if (fd >= 0)
        {
          ::dup2(fd, 2);
          ::close(fd);
        }
    }
  // scratch directory next to the ops file: <build/out>/c10/<tier>-<seed>-<pid>
  std::string outdir = argv[3];
  const std::size_t slash = outdir.find_last_of('/');
  outdir = (slash == std::string::npos ? std::string(".") : outdir.substr(0, slash)) + "/c10";
  ::mkdir(outdir.c_str(), 0777);
  const std::string dir = outdir + "/" + argv[2] + "-" + argv[1] + "-" + std::to_string(static_cast<long>(::getpid()));
  ::mkdir(dir.c_str(), 0777);

  long idx = 0;
  // single images: every NumericType x ByteOrder x scale setting, `reps` value distributions each
  const int reps = thorough ? 24 : 3;
  for (int rep = 0; rep < reps; ++rep)
    for (int ti = 0; ti < 10; ++ti)
      for (int bo = 0; bo < 2; ++bo)
        for (int ss = 0; ss < 4; ++ss)
          {
            // value distribution: cycle through all kinds so that each (type, kind) pair is met, plus a random one
            const int kind = rep == 0 ? (ti + 2 * ss + bo * 5) % 10 : rng.range(0, 9);
            single_case(rng, dir, idx++, ti, bo == 0, ss, kind, thorough);
          }
  // hand-picked single cases: the reader's own index convention, 1x1x1, the all-zero and all-negative corners for every type
  for (int ti = 0; ti < 10; ++ti)
    for (int kind : { 2, 3, 8, 4 })
      single_case(rng, dir, idx++, ti, true, 0, kind, thorough);
  // exact ties: values k/8 with scale factor 1/4 -> rounding half away from zero is observable
  for (int rep = 0; rep < (thorough ? 4 : 1); ++rep)
    for (int ti = 0; ti < 10; ++ti)
      single_case(rng, dir, idx++, ti, rep % 2 == 0, 4, 10, thorough);
  // containers: every NumericType x requested ByteOrder x container format, scale settings and value kinds cycled / random
  const int creps = thorough ? 8 : 2;
  for (int rep = 0; rep < creps; ++rep)
    for (int ti = 0; ti < 10; ++ti)
      for (int bo = 0; bo < 2; ++bo)
        for (int c = 0; c < 4; ++c)
          {
            const int ss = (rep + ti + c + 2 * bo) % 5;
            // the first member's value distribution: cycle through all kinds, later repetitions random
            const int first_kind = rep == 0 ? (ss == 4 ? 10 : (ti + 3 * c + 5 * bo) % 10) : (ss == 4 ? 10 : -1);
            container_case(rng, dir, idx++, c & 1, c & 2, ti, bo == 0, ss, first_kind, thorough);
          }
  list_registry<DiscretisedDensity<3, float>>("image");
  list_registry<DynamicDiscretisedDensity>("dynamic");
  list_registry<ParametricVoxelsOnCartesianGrid>("parametric");

  ::rmdir(dir.c_str());
  ::rmdir(outdir.c_str()); // only succeeds if no other run is using it
  for (const auto& kv : g_cover)
    std::fprintf(g_orc, "COVER %s %ld\n", kv.first.c_str(), kv.second);
  std::fprintf(g_orc, "ORACLE-DONE checks=%ld fails=%ld\n", g_checks, g_fails);
  std::fclose(g_ops);
  std::fclose(g_out);
  std::fclose(g_orc);
  return 0;
}
