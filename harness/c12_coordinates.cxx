// C12 — implementation side: bin coordinates, lines of response and detector positions.
// Drives the real ProjDataInfo* classes (cylindrical arc-corrected / not, blocks-on-cylindrical, generic),
// LORCoordinates conversions, DetectorCoordinateMap, the TOF bin table, overlap_interpolate and ArcCorrection.
// Usage: c12_coordinates <seed> <quick|thorough> <opsfile> <implfile>
//
// Line protocol (see lean/Driver/C12.lean for the model side):
//   cfg <geom> N R span maxdelta views ntang arc tofmash maxtof Reff spacing binsize tilt tofsize [block parameters]
//        -> segs <minseg> : lo,hi,n ... | tof <mint> <maxt> <nbins> | tang <min> <max> | mash <m>      (or err)
//   coord s v a tp t   -> get_s get_phi get_m get_t get_tantheta get_k sampling_in_s _m _t _k          (hex floats)
//   lor s v a tp t     -> z1 z2 phi beta swapped                                                      (get_LOR)
//   rt s v a tp t      -> bin returned by get_bin(get_LOR(bin), tof_delta_time(bin)) | miss | err
//   det s v a tp       -> n  <s> <dphi> <m> <tantheta>  averaged over the physical detector pairs of the bin
//   tofb t             -> low_mm high_mm low_ps high_ps k sampling_k
//   toft <delta>       -> get_tof_bin(delta)
//   dpos tang ax       -> x y z of Scanner::get_coordinate_for_det_pos (blocks)
//   blor x1 y1 z1 x2 y2 z2 -> s phi m tantheta of a generic-geometry bin with these detector coordinates (data)
//   ovl ...            -> overlap_interpolate on float rows
//   arc ...            -> ArcCorrection::do_arc_correction on one row
//   acnew / acsu ... / acrow ... -> one ArcCorrection object re-used: construction, set_up (any overload), do_arc_correction on one row
#include "stir_fixtures.h"
#include "common.h"
#include "stir/ArcCorrection.h"
#include "stir/Array.h"
#include "stir/Bin.h"
#include "stir/DetectionPositionPair.h"
#include "stir/LORCoordinates.h"
#include "stir/ProjDataInfoBlocksOnCylindricalNoArcCorr.h"
#include "stir/ProjDataInfoCylindricalArcCorr.h"
#include "stir/ProjDataInfoCylindricalNoArcCorr.h"
#include "stir/ProjDataInfoGenericNoArcCorr.h"
#include "stir/Sinogram.h"
#include "stir/ExamInfo.h"
#include "stir/ProjDataInMemory.h"
#include "stir/RelatedViewgrams.h"
#include "stir/SegmentBySinogram.h"
#include "stir/SegmentByView.h"
#include "stir/Viewgram.h"
#include "stir/ViewSegmentNumbers.h"
#include "stir/recon_buildblock/DataSymmetriesForBins_PET_CartesianGrid.h"
#include "stir/Succeeded.h"
#include "stir/modulo.h"
#include "stir/round.h"
#include "stir/numerics/overlap_interpolate.h"
#include <algorithm>
#include <cmath>
#include <map>
#include <set>

using namespace stir;

static FILE *ops, *out, *orc;
static long oracle_checks = 0, oracle_fails = 0;
static std::map<std::string, long> fail_kinds;
static std::set<std::string> known_emitted;
static std::string cur_cfg;
static bool thorough = false;
static const double PI = 3.14159265358979323846;

static void
ofail(const std::string& kind, const std::string& text)
{
  ++oracle_fails;
  if (++fail_kinds[kind] <= 3)
    std::fprintf(orc, "ORACLE-FAIL %s: %s [%s]\n", kind.c_str(), text.c_str(), cur_cfg.c_str());
}
static void
known(const std::string& key, const std::string& text)
{
  ++oracle_fails;
  if (known_emitted.insert(key).second)
    std::fprintf(orc, "KNOWN-CANDIDATE %s %s (first seen: %s)\n", key.c_str(), text.c_str(), cur_cfg.c_str());
}
#define H(x) vh::hex(x).c_str()

static std::string
bstr(const Bin& b)
{
  char buf[128];
  std::snprintf(buf, sizeof buf, "%d %d %d %d %d", b.segment_num(), b.view_num(), b.axial_pos_num(), b.tangential_pos_num(),
                b.timing_pos_num());
  return buf;
}

// ---------------------------------------------------------------------------------------------
// geometry of the straight line through two points (STIR coordinates), in double.
// STIR's parametrisation: X = s cos(phi) + a sin(phi), Y = s sin(phi) - a cos(phi), Z = m - a tan(theta);
// the first point is the one with a > 0.
struct Line
{
  double phi, s, m, tantheta;
};
static Line
line_through(const CartesianCoordinate3D<float>& c1, const CartesianCoordinate3D<float>& c2)
{
  const double dx = double(c1.x()) - c2.x(), dy = double(c1.y()) - c2.y();
  const double L = std::sqrt(dx * dx + dy * dy);
  Line l;
  l.phi = std::atan2(dx, -dy);
  const double cp = std::cos(l.phi), sp = std::sin(l.phi);
  l.s = c1.x() * cp + c1.y() * sp;
  const double a1 = c1.x() * sp - c1.y() * cp;
  l.tantheta = (double(c2.z()) - c1.z()) / L;
  l.m = c1.z() + a1 * l.tantheta;
  return l;
}
// bring `l` to the representation whose phi is closest to `phi_ref` (phi -> phi + pi reverses the signs of s and tan(theta))
static Line
align(Line l, double phi_ref)
{
  const double k = std::floor((phi_ref - l.phi) / PI + 0.5);
  l.phi += k * PI;
  if (std::fmod(std::fabs(k), 2.0) == 1.0)
    {
      l.s = -l.s;
      l.tantheta = -l.tantheta;
    }
  return l;
}

// ---------------------------------------------------------------------------------------------
struct Cfg
{
  std::string geom = "cyl"; // cyl | blocks | generic
  std::string name;         // predefined scanner name (empty: generated)
  int N = 16, R = 4, span = 1, max_delta = 3, views = 8, ntang = 7, tof_mash = 0, tof_bins = -1;
  bool arc = false;
  float radius = 100.F, doi = 5.F, spacing = 4.F, binsize = 2.F, tilt = 0.F, tofsize = 100.F;
  // blocks
  int ax_blocks_per_bucket = 1, tr_blocks_per_bucket = 1, ax_cryst_per_block = 1, tr_cryst_per_block = 1;
  float ax_cryst_spacing = -1, tr_cryst_spacing = -1, ax_block_spacing = -1, tr_block_spacing = -1;
  std::string mapfile;
};

static shared_ptr<Scanner>
make_scanner(const Cfg& c)
{
  if (!c.name.empty())
    {
      shared_ptr<Scanner> s(Scanner::get_scanner_from_name(c.name));
      return s;
    }
  const std::string geometry = c.geom == "cyl" ? "Cylindrical" : (c.geom == "blocks" ? "BlocksOnCylindrical" : "Generic");
  if (c.geom == "blocks" && c.tof_bins > 0)
    {
      // Scanner::set_up builds GeometryBlocksOnCylindrical (whose constructor runs check_consistency, which for a TOF scanner compares the
      // coincidence window with get_max_FOV_radius()) BEFORE initialise_max_FOV_radius(): the check reads an uninitialised member.
      // Not C12's subject; to get a deterministic answer we first build and drop the non-TOF twin, whose storage (and value) is reused.
      Cfg twin = c;
      twin.tof_bins = -1;
      twin.tof_mash = 0;
      make_scanner(twin);
    }
  shared_ptr<Scanner> s(new Scanner(Scanner::User_defined_scanner, std::string("verif_c12"), c.N, c.R,
                                    /*max_num_non_arccorrected_bins*/ std::max(1, c.N - 1),
                                    /*default_num_arccorrected_bins*/ std::max(1, c.N / 2 - 1), c.radius, c.doi, c.spacing, c.binsize,
                                    c.tilt, c.ax_blocks_per_bucket, c.tr_blocks_per_bucket, c.ax_cryst_per_block,
                                    c.tr_cryst_per_block, 1, 1, 1, 0.1F, 511.F, static_cast<short>(c.tof_bins),
                                    c.tof_bins > 0 ? c.tofsize : -1.F, c.tof_bins > 0 ? 400.F : -1.F, geometry, c.ax_cryst_spacing,
                                    c.tr_cryst_spacing, c.ax_block_spacing, c.tr_block_spacing, c.mapfile));
  return s;
}

// a selection of indices lo..hi containing the ends, the ends' neighbours, 0 and a seeded sample
static std::vector<int>
pick(int lo, int hi, int maxcount, vh::Rng& rng)
{
  std::set<int> s;
  if (hi - lo + 1 <= maxcount)
    for (int i = lo; i <= hi; ++i)
      s.insert(i);
  else
    {
      s.insert(lo);
      s.insert(hi);
      if (maxcount >= 4)
        {
          s.insert(lo + 1);
          s.insert(hi - 1);
        }
      if (lo <= 0 && hi >= 0)
        s.insert(0);
      if (lo <= 1 && hi >= 1 && maxcount >= 6)
        s.insert(1);
      int guard = 0;
      while ((int)s.size() < maxcount && ++guard < 10 * maxcount)
        s.insert(rng.range(lo, hi));
    }
  return std::vector<int>(s.begin(), s.end());
}

static bool
near(double a, double b, double tol)
{
  return std::fabs(a - b) <= tol;
}

// ---------------------------------------------------------------------------------------------
// TOF bin table (ProjDataInfo::set_tof_mash_factor, get_k, get_tof_bin)
static void
run_tof(const ProjDataInfo& p, vh::Rng& rng)
{
  if (!p.is_tof_data())
    return;
  const int mint = p.get_min_tof_pos_num(), maxt = p.get_max_tof_pos_num();
  std::vector<int> ts = pick(mint, maxt, thorough ? 41 : 9, rng);
  for (int t : ts)
    {
      Bin b(0, 0, 0, 0, t, 1.F);
      std::fprintf(ops, "tofb %d\n", t);
      std::fprintf(out, "%s %s %s %s %s %s\n", H(p.tof_bin_boundaries_mm[t].low_lim), H(p.tof_bin_boundaries_mm[t].high_lim),
                   H(p.tof_bin_boundaries_ps[t].low_lim), H(p.tof_bin_boundaries_ps[t].high_lim), H(p.get_k(b)),
                   H(p.get_sampling_in_k(b)));
    }
  // ORACLE: boundaries contiguous, increasing, symmetric; k antisymmetric and increasing; centre of a bin is found again
  for (int t = mint; t <= maxt; ++t)
    {
      const double lo = p.tof_bin_boundaries_mm[t].low_lim, hi = p.tof_bin_boundaries_mm[t].high_lim;
      const double k = p.get_k(Bin(0, 0, 0, 0, t, 1.F)), km = p.get_k(Bin(0, 0, 0, 0, -t, 1.F));
      const double w = p.get_sampling_in_k(Bin(0, 0, 0, 0, t, 1.F));
      const double tol = 1e-5 * (std::fabs(lo) + std::fabs(hi) + w);
      ++oracle_checks;
      if (!(w > 0) || !(lo < hi) || !near((lo + hi) / 2, k, tol) || !near(hi - lo, w, tol))
        ofail("tof-bin", "TOF bin " + std::to_string(t) + " is not [k-w/2,k+w/2] with w>0");
      if (t < maxt)
        {
          ++oracle_checks;
          const double lo1 = p.tof_bin_boundaries_mm[t + 1].low_lim;
          if (!near(hi, lo1, tol))
            ofail("tof-contiguous", "high(" + std::to_string(t) + ") != low(" + std::to_string(t + 1) + ")");
          if (!(p.get_k(Bin(0, 0, 0, 0, t + 1, 1.F)) > k))
            ofail("tof-monotone", "get_k not increasing at " + std::to_string(t));
        }
      ++oracle_checks;
      if (!near(km, -k, tol))
        ofail("tof-antisym", "get_k(-t) != -get_k(t) at t=" + std::to_string(t));
      if (-t >= mint && -t <= maxt)
        {
          ++oracle_checks;
          if (!near(p.tof_bin_boundaries_mm[-t].low_lim, -hi, tol) || !near(p.tof_bin_boundaries_mm[-t].high_lim, -lo, tol))
            ofail("tof-sym", "boundaries of -t are not the mirrored boundaries of t=" + std::to_string(t));
        }
      // ps boundaries are the mm boundaries converted with c/2
      ++oracle_checks;
      const double c2 = 0.299792458 * 0.5;
      if (!near(p.tof_bin_boundaries_ps[t].low_lim * c2, lo, tol) || !near(p.tof_bin_boundaries_ps[t].high_lim * c2, hi, tol))
        ofail("tof-ps", "ps boundaries are not the mm boundaries / (c/2) at t=" + std::to_string(t));
      // the centre, and points well inside, are found again
      ++oracle_checks;
      const double dt = p.get_tof_delta_time(Bin(0, 0, 0, 0, t, 1.F));
      if (p.get_tof_bin(dt) != t)
        ofail("tof-roundtrip", "get_tof_bin(get_tof_delta_time(t)) != t at t=" + std::to_string(t));
    }
  ++oracle_checks;
  if (mint != -maxt || p.get_num_tof_poss() != maxt - mint + 1 || p.get_num_tof_poss() % 2 != 1)
    ofail("tof-range", "TOF bin range is not symmetric/odd");
  // get_tof_bin on a seeded sample of time differences well inside bins
  const double wps = p.tof_bin_boundaries_ps[0].high_lim - p.tof_bin_boundaries_ps[0].low_lim;
  for (int k = 0; k < (thorough ? 40 : 8); ++k)
    {
      const int t = rng.range(mint, maxt);
      const double f = (rng.range(1, 9)) / 10.0; // position inside the bin
      const double delta = p.tof_bin_boundaries_ps[t].low_lim + f * wps;
      std::fprintf(ops, "toft %s\n", H(delta));
      std::fprintf(out, "%d\n", p.get_tof_bin(delta));
      ++oracle_checks;
      if (p.get_tof_bin(delta) != t)
        ofail("tof-lookup", "a time difference inside TOF bin " + std::to_string(t) + " is assigned to another bin");
    }
}

// ---------------------------------------------------------------------------------------------
// coordinates, LOR round trip and detector agreement for one projection-data geometry
struct Stats
{
  long bins = 0, rt_same = 0, rt_step = 0, rt_wrap = 0, rt_miss = 0, det_checked = 0, reps = 0, found = 0, arc_rows = 0;
};
static Stats total;
// the conversion cylinder -> sinogram coordinates of LORCoordinates.inl reverses the direction of some LORs (probed once in main)
static bool lor_dir_defect_present = false, lor_dir_defect_applies = false, view_wrap_defect_present = false;

static void
run_pdi(const Cfg& c, const shared_ptr<Scanner>& scanner, const shared_ptr<ProjDataInfo>& pdi0, vh::Rng& rng)
{
  const ProjDataInfo& p = *pdi0;
  const ProjDataInfoCylindrical* pc = dynamic_cast<const ProjDataInfoCylindrical*>(&p);
  const ProjDataInfoCylindricalNoArcCorr* pn = dynamic_cast<const ProjDataInfoCylindricalNoArcCorr*>(&p);
  const ProjDataInfoCylindricalArcCorr* pa = dynamic_cast<const ProjDataInfoCylindricalArcCorr*>(&p);
  const ProjDataInfoGenericNoArcCorr* pg = dynamic_cast<const ProjDataInfoGenericNoArcCorr*>(&p);
  const int N = scanner->get_num_detectors_per_ring(), R = scanner->get_num_rings();
  const int V = p.get_num_views();
  const double Reff = scanner->get_effective_ring_radius();
  const double spacing = scanner->get_ring_spacing();
  const int mash = pg ? 1 : pc->get_view_mashing_factor();
  const double half_view = PI / N; // half an (unmashed) view step
  const double axial_len = spacing * std::max(1, R);
  const int mintp = p.get_min_tangential_pos_num(), maxtp = p.get_max_tangential_pos_num();
  const int mint = p.get_min_tof_pos_num(), maxt = p.get_max_tof_pos_num();

  // ---- selection of bins
  const bool small = (long)p.get_num_sinograms() * V * p.get_num_tangential_poss() <= (thorough ? 400000 : 60000);
  std::vector<int> segs = pick(p.get_min_segment_num(), p.get_max_segment_num(), small ? 1000000 : (thorough ? 11 : 7), rng);
  std::vector<int> views = pick(0, V - 1, small ? 1000000 : (thorough ? 28 : 10), rng);
  std::vector<int> tps = pick(mintp, maxtp, small ? 1000000 : (thorough ? 56 : 20), rng);
  std::vector<int> tofs = pick(mint, maxt, small ? 1000000 : (thorough ? 5 : 3), rng);
  std::vector<Bin> bins;
  for (int s : segs)
    {
      std::vector<int> axs = pick(p.get_min_axial_pos_num(s), p.get_max_axial_pos_num(s), small ? 1000000 : (thorough ? 14 : 8), rng);
      for (int a : axs)
        for (int v : views)
          for (int tp : tps)
            for (int t : tofs)
              bins.push_back(Bin(s, v, a, tp, t, 1.F));
    }
  // bins that also go to the model (operation lines)
  const int nops = thorough ? 160 : 64;
  std::set<std::size_t> op_idx;
  if (bins.size() <= (std::size_t)nops)
    for (std::size_t i = 0; i < bins.size(); ++i)
      op_idx.insert(i);
  else
    while (op_idx.size() < (std::size_t)nops)
      op_idx.insert(rng.next() % bins.size());

  // z of the axial centre of the detector stack in the coordinates of find_cartesian_coordinates_given_scanner_coordinates
  double z_centre = 0;
  if (pn || pg)
    {
      CartesianCoordinate3D<float> a1, a2;
      if (pn)
        pn->find_cartesian_coordinates_given_scanner_coordinates(a1, a2, 0, R - 1, 0, N / 2, 0);
      else
        pg->find_cartesian_coordinates_given_scanner_coordinates(a1, a2, 0, R - 1, 0, N / 2);
      z_centre = (double(a1.z()) + a2.z()) / 2;
    }

  // arc-corrected data have no detectors of their own: their angles, axial coordinate and obliqueness must be those of the
  // detector-based (non-arc-corrected) geometry of the same scanner, span and number of views
  shared_ptr<ProjDataInfo> noarc_ref;
  if (pa)
    try
      {
        noarc_ref = vh::make_pdi(scanner, c.span, c.max_delta, c.views, std::min(scanner->get_max_num_non_arccorrected_bins(), N - 1), false,
                                 c.tof_mash);
      }
    catch (...)
      {
      }

  std::size_t idx = 0;
  for (const Bin& b : bins)
    {
      const bool to_model = op_idx.count(idx++) != 0;
      ++total.bins;
      const int sg = b.segment_num(), v = b.view_num(), a = b.axial_pos_num(), tp = b.tangential_pos_num(), t = b.timing_pos_num();
      const double s = p.get_s(b), phi = p.get_phi(b), m = p.get_m(b), tt = p.get_tantheta(b), k = p.get_k(b);
      if (pa && !(std::fabs(s) < 0.995 * Reff))
        continue; // arc-corrected bins outside the detector ring have no line of response
      if (pc->get_min_ring_difference(sg) == pc->get_max_ring_difference(sg)
          && p.get_num_axial_poss(sg) != R - std::abs(pc->get_min_ring_difference(sg)))
        continue; // a compressed segment clipped to one ring difference: its axial bookkeeping is the subject (and known finding) of C01
      if (sg == 0 && pc && pc->get_min_ring_difference(0) != -pc->get_max_ring_difference(0))
        {
          // (was: even span with max_delta = span/2-1 clipped segment 0 to [-span/2, span/2-1]; such a configuration is now rejected)
          ++oracle_checks;
          ofail("segment0-asymmetric", "segment 0 is its own opposite segment but its ring differences are not symmetric about 0");
          continue;
        }
      if (to_model && !pg)
        {
          std::fprintf(ops, "coord %s\n", bstr(b).c_str());
          std::fprintf(out, "%s %s %s %s %s %s %s %s %s %s\n", H(s), H(phi), H(m), H(p.get_t(b)), H(tt), H(k),
                       H(p.get_sampling_in_s(b)), H(p.get_sampling_in_m(b)), H(p.get_sampling_in_t(b)), H(p.get_sampling_in_k(b)));
        }
      // ---- ORACLE: antisymmetry / monotonicity in the indices
      {
        ++oracle_checks;
        const Bin bneg(sg, v, a, -tp, t, 1.F), bnext(sg, v, a, tp + 1, t, 1.F);
        if (!pg)
          {
            if (!near(p.get_s(bneg), -s, 1e-5 * Reff))
              ofail("s-antisym", "get_s(-tp) != -get_s(tp) at bin " + bstr(b));
            if (tp < maxtp && !(p.get_s(bnext) > s))
              ofail("s-monotone", "get_s not increasing in the tangential position at bin " + bstr(b));
            if (tp == 0 && !near(s, 0, 1e-6 * Reff))
              ofail("s-zero", "get_s(tp=0) != 0");
          }
        if (-sg >= p.get_min_segment_num() && -sg <= p.get_max_segment_num() && a <= p.get_max_axial_pos_num(-sg))
          {
            ++oracle_checks;
            const Bin bos(-sg, v, a, tp, t, 1.F);
            const double tto = p.get_tantheta(bos);
            if (!near(tto, -tt, 1e-5 * (1 + std::fabs(tt))))
              ofail("tantheta-antisym", "opposite segments do not have opposite tan(theta) at bin " + bstr(b));
            if (sg > 0 && pc && !pg && !(tt > 0))
              ofail("tantheta-sign", "positive segment with non-positive tan(theta) at bin " + bstr(b));
            if (sg == 0 && pc && !pg && tt != 0)
              ofail("tantheta-zero", "segment 0 with non-zero tan(theta) at bin " + bstr(b));

            if (!near(p.get_m(bos), m, 1e-5 * axial_len))
              ofail("m-segment-sym", "opposite segments give different m at bin " + bstr(b));
          }
        if (!pg)
          {
            // m antisymmetric about the scanner centre, increasing with the axial position
            ++oracle_checks;
            const int amir = p.get_max_axial_pos_num(sg) + p.get_min_axial_pos_num(sg) - a;
            if (!near(p.get_m(Bin(sg, v, amir, tp, t, 1.F)), -m, 1e-5 * axial_len))
              ofail("m-antisym", "get_m is not antisymmetric about the scanner centre at bin " + bstr(b));
            if (!(p.get_m(Bin(sg, v, a + 1, tp, t, 1.F)) > m))
              ofail("m-monotone", "get_m not increasing in the axial position at bin " + bstr(b));
            if (!(p.get_phi(Bin(sg, v + 1, a, tp, t, 1.F)) > phi))
              ofail("phi-monotone", "get_phi not increasing in the view at bin " + bstr(b));
            // sampling = distance between neighbours
            if (!near(p.get_sampling_in_m(b), p.get_m(Bin(sg, v, a + 1, tp, t, 1.F)) - m, 1e-5 * axial_len))
              ofail("m-sampling", "get_sampling_in_m is not the axial distance between neighbouring bins at " + bstr(b));
          }
        if (p.is_tof_data())
          {
            ++oracle_checks;
            if (!near(p.get_k(Bin(sg, v, a, tp, -t, 1.F)), -k, 1e-5 * (1 + std::fabs(k))))
              ofail("k-antisym", "opposite TOF bins do not have opposite distances at bin " + bstr(b));
          }
        else if (k != 0)
          ofail("k-nontof", "non-TOF data with non-zero get_k");
        if (pa)
          {
            // uniform tangential sampling
            ++oracle_checks;
            const double d = p.get_s(bnext) - s;
            const double tol = 1e-6 * (std::fabs(s) + std::fabs(d));
            if (!near(d, pa->get_tangential_sampling(), tol) || !near(p.get_sampling_in_s(b), d, tol)
                || !near(s, tp * double(pa->get_tangential_sampling()), tol))
              ofail("arc-uniform", "arc-corrected data without uniform tangential sampling at bin " + bstr(b));
            if (noarc_ref && sg >= noarc_ref->get_min_segment_num() && sg <= noarc_ref->get_max_segment_num())
              {
                ++oracle_checks;
                const Bin b0(sg, v, a, 0, t, 1.F);
                const double tt0 = noarc_ref->get_tantheta(b0); // at s = 0: ring difference * spacing / (2 R)
                if (!near(noarc_ref->get_phi(b0), phi, 1e-5) || !near(noarc_ref->get_m(b0), m, 1e-5 * axial_len)
                    || !near(noarc_ref->get_k(b0), k, 1e-5 * (1 + std::fabs(k)))
                    || !near(tt * std::sqrt(std::max(0., Reff * Reff - s * s)), tt0 * Reff, 1e-4 * (1 + std::fabs(tt0)) * Reff))
                  ofail("arc-vs-detectors", "arc-corrected bin " + bstr(b)
                                                + " does not have the view angle / axial position / obliqueness / TOF distance of the "
                                                  "detector-based geometry of the same scanner");
              }
          }
      }

      // ---- the bin's line of response, and back
      LORInAxialAndNoArcCorrSinogramCoordinates<float> lor;
      p.get_LOR(lor, b);
      if (to_model && !pg)
        {
          std::fprintf(ops, "lor %s\n", bstr(b).c_str());
          std::fprintf(out, "%s %s %s %s %d\n", H(lor.z1()), H(lor.z2()), H(lor.phi()), H(lor.beta()), lor.is_swapped() ? 1 : 0);
        }
      // ORACLE: the LOR is the line (s, phi, m, tan(theta)) of the bin
      {
        ++oracle_checks;
        LORAs2Points<float> pts(lor);
        Line l = align(line_through(pts.p1(), pts.p2()), phi);
        if (lor.is_swapped())
          { // direction reversed: first point has a < 0; same line
          }
        const double rl = lor.radius();
        if (!near(l.s, s, 2e-5 * rl) || !near(l.phi, phi, 2e-5) || !near(l.m, m, 2e-5 * (axial_len + std::fabs(m)))
            || !near(l.tantheta, tt, 2e-5 * (1 + std::fabs(tt)) * (rl * rl) / std::max(1e-9, rl * rl - s * s)))
          ofail("lor-line", "get_LOR is not the line (get_s,get_phi,get_m,get_tantheta) of bin " + bstr(b));
      }
      // round trip: get_bin of the line of response of the bin, given in every LOR representation
      {
        const double dtime = p.get_tof_delta_time(b);
        const int lo_rd = pc->get_min_ring_difference(sg), hi_rd = pc->get_max_ring_difference(sg);
        // classification of a result `nb` of get_bin for a line whose direction is that of the bin (sign=+1) or reversed (sign=-1:
        // the TOF bin changes sign); `count`: add to the statistics (the representation returned by get_LOR only)
        auto judge = [&](const Bin& nb, const bool err, const bool miss, const int sign, const std::string& label, const bool count) -> bool {
          const int te = sign * t; // expected TOF bin
          ++oracle_checks;
          if (err)
            ofail("roundtrip-exception" + label, "get_bin(get_LOR(bin)) throws for bin " + bstr(b));
          else if (pa)
            {
              // (all TOF bins: get_bin is given get_tof_delta_time(bin))
              if (miss || nb.segment_num() != sg || nb.view_num() != v || nb.axial_pos_num() != a || nb.tangential_pos_num() != tp
                  || nb.timing_pos_num() != te)
                {
                  if (label == "-cyl" || label == "-cylrev" || label == "-pts" || label == "-str" || label == "-rev")
                    {
                      // view 0 whose angle, recomputed from the end points, comes out a rounding error below the azimuthal offset:
                      // to_0_2pi gives 2pi - epsilon, round gives 2*num_views, "view > max_view => subtract num_views" gives num_views
                      // (at the first tangential position of an even-sized range the negated position is outside the data: miss)
                      if (view_wrap_defect_present && v == 0
                          && (miss ? (-tp < mintp || -tp > maxtp)
                                   : (nb.view_num() == V && nb.segment_num() == -sg && nb.axial_pos_num() == a
                                      && nb.tangential_pos_num() == -tp
                                      && (nb.timing_pos_num() == -te || (lor_dir_defect_applies && nb.timing_pos_num() == te)))))
                        {
                          known("arccorr:get_bin-returns-view-equal-to-num_views",
                                "ProjDataInfoCylindricalArcCorr::get_bin returns view_num == get_num_views() (out of range; segment and "
                                "tangential position negated) for the LOR of a bin of view 0 given in cylinder coordinates or as two points: "
                                "the angle recomputed from the end points is a rounding error below the azimuthal offset, to_0_2pi maps it to "
                                "just under 2 pi, round gives 2*num_views and only num_views is subtracted");
                          return true;
                        }
                      // is it only the direction (TOF sign) that is wrong, for a cylinder LOR with psi1 - psi2 in (pi, 2pi) ?
                      if (!miss && nb.segment_num() == sg && nb.view_num() == v && nb.axial_pos_num() == a
                          && nb.tangential_pos_num() == tp && nb.timing_pos_num() == -te && lor_dir_defect_applies)
                        {
                          known("lor:cylinder-to-sinogram-direction",
                                "LORInAxialAnd(NoArcCorr)SinogramCoordinates constructed from a LORInCylinderCoordinates with psi1 - psi2 in "
                                "(pi, 2pi) and (psi1+psi2-pi)/2 < pi exchanges the two end points but reports is_swapped() == false "
                                "(get_sino_coords, LORCoordinates.inl): the direction of the LOR is reversed, and "
                                "ProjDataInfoCylindricalArcCorr::get_bin of such a LOR (cylinder coordinates or two points) returns the opposite "
                                "TOF bin");
                          return true;
                        }
                    }
                  ofail("roundtrip-arccorr" + label, "arc-corrected round trip does not return the same bin for " + bstr(b) + " -> "
                                                         + (miss ? std::string("miss") : bstr(nb)) + (sign < 0 ? " (direction reversed)" : ""));
                }
              else if (count)
                ++total.rt_same;
            }
          else if (pn)
            {
              if (miss)
                {
                  if (count)
                    ++total.rt_miss;
                  const double avg = pc->get_average_ring_difference(sg);
                  const int margin = (int)std::max(std::ceil(avg - lo_rd), std::ceil(hi_rd - avg));
                  const bool axial_edge
                      = lo_rd != hi_rd && (a < p.get_min_axial_pos_num(sg) + margin || a > p.get_max_axial_pos_num(sg) - margin);
                  if (!axial_edge)
                    {
                      if (tp == mintp || tp == maxtp)
                        known("roundtrip:miss-at-tangential-edge",
                              "get_bin(get_LOR(bin)) reports a miss for a bin at the first/last tangential position that is not at the "
                              "axial edge of a compressed segment: rounding to the nearest detectors moves the bin one tangential step "
                              "outwards, out of the tangential range of the data (at |tp| = N/2-1: onto one and the same detector)");
                      else
                        ofail("roundtrip-miss" + label, "get_bin(get_LOR(bin)) misses although the bin is not at an edge: " + bstr(b));
                    }
                }
              else
                {
                  const int dv = std::abs(nb.view_num() - v);
                  // stepping between the last and the first view reverses the signs (with two views both readings are possible)
                  bool wrap = dv > V - dv;
                  const int dview = std::min(dv, V - dv);
                  if (dv == V - dv && nb.segment_num() == -sg && nb.segment_num() != sg)
                    wrap = true;
                  if (dv == V - dv && sg == 0 && std::abs(nb.tangential_pos_num() + tp) < std::abs(nb.tangential_pos_num() - tp))
                    wrap = true;
                  const int dseg = wrap ? nb.segment_num() + sg : nb.segment_num() - sg;
                  const int dtp = wrap ? nb.tangential_pos_num() + tp : nb.tangential_pos_num() - tp;
                  const int dtof = wrap ? nb.timing_pos_num() + te : nb.timing_pos_num() - te;
                  const int dax = nb.axial_pos_num() - a;
                  const bool exact = nb.segment_num() == sg && nb.view_num() == v && nb.axial_pos_num() == a
                                     && nb.tangential_pos_num() == tp && nb.timing_pos_num() == te;
                  if (dseg != 0 || dtof != 0 || dview > 1 || std::abs(dtp) > 1 || std::abs(dax) > 1
                      || (V > 2 && wrap && dview == 0))
                    ofail("roundtrip-step" + label, "get_bin(get_LOR(bin)) is more than one step away: " + bstr(b) + " -> " + bstr(nb)
                                                        + (sign < 0 ? " (direction reversed)" : ""));
                  else if (!count)
                    {
                    }
                  else if (exact)
                    ++total.rt_same;
                  else if (wrap)
                    ++total.rt_wrap;
                  else
                    ++total.rt_step;
                  // even tangential position, no mashing, no axial compression: exact
                  if (tp % 2 == 0 && mash == 1 && lo_rd == hi_rd && !exact)
                    ofail("roundtrip-even" + label, "round trip of an uncompressed bin with even tangential position is not exact: "
                                                        + bstr(b) + " -> " + bstr(nb));
                }
            }
          return false;
        };
        auto call_get_bin = [&](const LOR<float>& l, Bin& nb, bool& err, bool& miss) {
          err = false;
          try
            {
              nb = p.get_bin(l, dtime);
            }
          catch (...)
            {
              err = true;
            }
          miss = !err && nb.get_bin_value() <= 0;
        };
        Bin nb;
        bool err = false, miss = false;
        if (pg)
          { // generic geometries only accept a pair of points
            LORAs2Points<float> pts;
            lor.get_intersections_with_cylinder(pts, lor.radius());
            call_get_bin(pts, nb, err, miss);
          }
        else
          call_get_bin(lor, nb, err, miss);
        if (to_model && !pg)
          {
            std::fprintf(ops, "rt %s\n", bstr(b).c_str());
            std::fprintf(out, "%s\n", err ? "err" : (miss ? "miss" : bstr(nb).c_str()));
          }
        judge(nb, err, miss, +1, "", true);

        // ---- the same geometric line in the other LOR types, with end points moved along the line, and with its direction reversed
        if (!pg && (to_model || thorough || idx % 3 == 0))
          {
            ++total.reps;
            const LORInCylinderCoordinates<float> cyl(lor);
            const LORInAxialAndSinogramCoordinates<float> sino(lor);
            const LORAs2Points<float> pts(lor);
            const int fa = rng.range(-2, 8), fb = rng.range(-2, 8); // eighths of the chord; negative: moved inwards
            const CartesianCoordinate3D<float> dvec = pts.p1() - pts.p2();
            const LORAs2Points<float> str(pts.p1() + dvec * (fa / 8.F), pts.p2() - dvec * (fb / 8.F));
            const LORAs2Points<float> rev(str.p2(), str.p1());
            const LORInCylinderCoordinates<float> cylrev(cyl.p2(), cyl.p1(), cyl.radius());
            const LORInAxialAndNoArcCorrSinogramCoordinates<float> narev(lor.z1(), lor.z2(), lor.phi(), lor.beta(), lor.radius(),
                                                                         !lor.is_swapped());
            const LORInAxialAndSinogramCoordinates<float> sinorev(sino.z1(), sino.z2(), sino.phi(), sino.s(), sino.radius(),
                                                                  !sino.is_swapped());
            struct Rep
            {
              const char* name;
              const LOR<float>* l;
              int sign;
            };
            const Rep reps[] = { { "cyl", &cyl, 1 },       { "sino", &sino, 1 },    { "pts", &pts, 1 },       { "str", &str, 1 },
                                 { "rev", &rev, -1 },      { "cylrev", &cylrev, -1 }, { "narev", &narev, -1 }, { "sinorev", &sinorev, -1 } };
            // rounding ties: the end points of the LOR sit exactly on detectors / rings iff ...
            const bool no_tie = pa || (lo_rd == hi_rd && ((mash - 1 + tp) % 2 == 0));
            for (const Rep& r : reps)
              {
                // (the conversion cylinder -> sinogram coordinates reverses the direction iff psi1 - psi2 in (pi,2pi): see `known` above)
                {
                  // (the cylinder coordinates that get_bin computes from this object: an angle of 0 may come out as 2 pi - rounding error)
                  LORInCylinderCoordinates<float> cc;
                  lor_dir_defect_applies = false;
                  if (lor_dir_defect_present && r.l->change_representation(cc, lor.radius()) == Succeeded::yes)
                    {
                      const double d12 = double(cc.p1().psi()) - cc.p2().psi();
                      lor_dir_defect_applies = d12 > PI - 1e-3 || (d12 < 0 && (cc.p1().psi() < 1e-3F || cc.p2().psi() > 2 * PI - 1e-3));
                    }
                }
                Bin rb;
                bool rerr, rmiss;
                call_get_bin(*r.l, rb, rerr, rmiss);
                if (to_model)
                  {
                    std::fprintf(ops, "rtx %s %s %d %d\n", r.name, bstr(b).c_str(), fa, fb);
                    std::fprintf(out, "%s\n", rerr ? "err" : (rmiss ? "miss" : bstr(rb).c_str()));
                  }
                const bool known_defect = judge(rb, rerr, rmiss, r.sign, std::string("-") + r.name, false);
                // without rounding ties every representation gives the very same answer
                if (no_tie && !err && !rerr && !known_defect)
                  {
                    ++oracle_checks;
                    const bool same = miss == rmiss
                                      && (miss
                                          || (rb.segment_num() == nb.segment_num() && rb.view_num() == nb.view_num()
                                              && rb.axial_pos_num() == nb.axial_pos_num()
                                              && rb.tangential_pos_num() == nb.tangential_pos_num()
                                              && rb.timing_pos_num() == r.sign * nb.timing_pos_num()));
                    if (!same)
                      ofail(std::string("rep-differs-") + r.name,
                            "get_bin of the LOR of bin " + bstr(b) + " given as " + r.name + " is " + (rmiss ? std::string("miss") : bstr(rb))
                                + " but " + (miss ? std::string("miss") : bstr(nb)) + " for the object returned by get_LOR");
                  }
              }
            lor_dir_defect_applies = false;
          }
      }

      // ---- ORACLE: the physical detector positions of the bin
      if (pn)
        {
          // (every TOF bin: the spatial coordinates of a bin do not depend on its TOF position)
          std::vector<DetectionPositionPair<>> dps;
          pn->get_all_det_pos_pairs_for_bin(dps, b, true);
          if (dps.empty())
            continue; // no contributing ring pair (axial bookkeeping is C01's subject)
          double as = 0, adphi = 0, am = 0, att = 0, ard = 0;
          bool same_s = true;
          std::set<int> rds;
          for (const auto& dp : dps)
            {
              CartesianCoordinate3D<float> c1, c2;
              pn->find_cartesian_coordinates_given_scanner_coordinates(c1, c2, dp.pos1().axial_coord(), dp.pos2().axial_coord(),
                                                                       dp.pos1().tangential_coord(), dp.pos2().tangential_coord(), 0);
              Line l = align(line_through(c1, c2), phi);
              as += l.s;
              adphi += l.phi - phi;
              am += l.m - z_centre;
              att += l.tantheta;
              const int rd = (int)dp.pos2().axial_coord() - (int)dp.pos1().axial_coord();
              ard += rd;
              rds.insert(rd);
              if (!near(l.s, s, 1e-4 * Reff))
                same_s = false;
            }
          const double n = dps.size();
          as /= n, adphi /= n, am /= n, att /= n, ard /= n;
          if (to_model && t == 0)
            {
              std::fprintf(ops, "det %d %d %d %d\n", sg, v, a, tp);
              std::fprintf(out, "%d %s %s %s %s\n", (int)dps.size(), H(as), H(adphi), H(am), H(att));
            }
          ++oracle_checks;
          ++total.det_checked;
          const int lo = pc->get_min_ring_difference(sg), hi = pc->get_max_ring_difference(sg);
          const double chord = 2 * std::sqrt(std::max(1e-12, Reff * Reff - s * s));
          // number of ring differences of the right parity in [lo,hi]: is the list complete (not cut at the axial edge)?
          int expect = 0;
          for (int rd = lo; rd <= hi; ++rd)
            if (((rd - *rds.begin()) % 2) == 0)
              ++expect;
          const bool complete = (int)rds.size() == expect;
          const double nominal = pc->get_average_ring_difference(sg);
          if (!same_s || !near(as, s, 1e-4 * Reff))
            ofail("det-s", "tangential offset of the detector chord differs from get_s at bin " + bstr(b));
          if (!near(am, m, 1e-4 * axial_len))
            ofail("det-m", "axial midpoint of the detector pairs differs from get_m at bin " + bstr(b));
          const double tt_tol = 1e-4 * (1 + std::fabs(att)) * (Reff * Reff) / (Reff * Reff - s * s);
          // (a) the line through the detectors has the obliqueness of the averaged ring difference; (b) get_tantheta is the NOMINAL one
          if (!near(att, ard * spacing / chord, tt_tol) || !near(tt, nominal * spacing / chord, tt_tol))
            ofail("det-tantheta", "obliqueness of the detector pairs / get_tantheta is not ring_difference*spacing/chord at bin " + bstr(b));
          else if (std::fabs(ard - nominal) > 1e-6)
            {
              // get_tantheta (nominal middle of the segment's ring differences) differs from the average over the contributing pairs
              const bool near_axial_end = a - p.get_min_axial_pos_num(sg) < hi - lo || p.get_max_axial_pos_num(sg) - a < hi - lo;
              if (!complete && near_axial_end && std::fabs(ard - nominal) <= (hi - lo) / 2.0 + 1e-6)
                known("obliqueness:ring-pair-list-cut-at-axial-edge",
                      "for an axially compressed oblique segment the ring pairs contributing to the first/last axial positions are only part of "
                      "the segment's ring differences (the others fall outside the scanner), so their average obliqueness differs from "
                      "get_tantheta, which always uses the middle (min+max)/2 of the segment");
              else if (complete && ((hi - lo) % 2) != 0 && near(std::fabs(ard - nominal), 0.5, 1e-6))
                known("obliqueness:even-number-of-ring-differences-per-segment",
                      "a segment with an even number of ring differences (even span) alternates between the even and the odd ones from one axial "
                      "position to the next; their average differs by half a ring difference from get_tantheta, which uses (min+max)/2");
              else
                ofail("det-tantheta-average", "average obliqueness of the contributing detector pairs differs from get_tantheta at bin " + bstr(b));
            }
          if (tp % 2 == 0 ? !near(adphi, 0, 1e-4) : !(std::fabs(adphi) <= half_view + 1e-4))
            ofail("det-phi", "azimuthal angle of the detector chord differs from get_phi at bin " + bstr(b));
          // uncompressed bins: find_cartesian_coordinates_of_detection gives the same line
          if (mash == 1 && lo == hi)
            {
              ++oracle_checks;
              CartesianCoordinate3D<float> c1, c2;
              pn->find_cartesian_coordinates_of_detection(c1, c2, b);
              Line l = align(line_through(c1, c2), phi);
              if (!near(l.s, s, 1e-4 * Reff) || !near(l.m - z_centre, m, 1e-4 * axial_len)
                  || !near(l.tantheta, tt, 1e-4 * (1 + std::fabs(tt)) * (Reff * Reff) / (Reff * Reff - s * s))
                  || !(std::fabs(l.phi - phi) <= (tp % 2 == 0 ? 1e-4 : half_view + 1e-4)))
                ofail("det-uncompressed", "find_cartesian_coordinates_of_detection is not on the line of bin " + bstr(b));
            }
          // ---- detection positions -> Cartesian coordinates -> detection positions / bin (find_scanner_coordinates_given_cartesian_coordinates,
          //      find_bin_given_cartesian_coordinates_of_detection): every contributing detector pair is found again, also from points
          //      moved outwards along the line, and belongs to this bin
          if (to_model || idx % 4 == 1)
          {
            const std::size_t stride = dps.size() > 6 ? dps.size() / 3 : 1;
            for (std::size_t k = 0; k < dps.size(); k += stride)
              {
                const auto& dp = dps[k];
                const int e1 = dp.pos1().tangential_coord(), e2 = dp.pos2().tangential_coord();
                const int q1 = dp.pos1().axial_coord(), q2 = dp.pos2().axial_coord();
                CartesianCoordinate3D<float> c1, c2;
                pn->find_cartesian_coordinates_given_scanner_coordinates(c1, c2, q1, q2, e1, e2, 0);
                const int f = rng.range(0, 4); // eighths of the chord by which both points are moved outwards
                const CartesianCoordinate3D<float> dv = c1 - c2;
                const CartesianCoordinate3D<float> g1 = c1 + dv * (f / 8.F), g2 = c2 - dv * (f / 8.F);
                int d1 = -1, d2 = -1, r1 = -1, r2 = -1;
                ++oracle_checks;
                ++total.found;
                if (pn->find_scanner_coordinates_given_cartesian_coordinates(d1, d2, r1, r2, g1, g2) != Succeeded::yes
                    || !((d1 == e1 && r1 == q1 && d2 == e2 && r2 == q2) || (d1 == e2 && r1 == q2 && d2 == e1 && r2 == q1)))
                  ofail("find-scanner-coordinates", "find_scanner_coordinates_given_cartesian_coordinates does not find the detectors ("
                                                        + std::to_string(e1) + "," + std::to_string(q1) + ")-(" + std::to_string(e2) + ","
                                                        + std::to_string(q2) + ") of bin " + bstr(b) + " from their coordinates (found ("
                                                        + std::to_string(d1) + "," + std::to_string(r1) + ")-(" + std::to_string(d2) + ","
                                                        + std::to_string(r2) + "))");
                Bin fb;
                fb.set_bin_value(1);
                pn->find_bin_given_cartesian_coordinates_of_detection(fb, g1, g2);
                ++oracle_checks;
                if (fb.get_bin_value() < 0 || fb.segment_num() != sg || fb.view_num() != v || fb.axial_pos_num() != a
                    || fb.tangential_pos_num() != tp || fb.timing_pos_num() != 0)
                  ofail("find-bin", "find_bin_given_cartesian_coordinates_of_detection of the coordinates of a detector pair of bin " + bstr(b)
                                        + " gives " + (fb.get_bin_value() < 0 ? std::string("miss") : bstr(fb)));
                if (to_model && k == 0 && t == 0)
                  {
                    std::fprintf(ops, "fbin %d %d %d %d %d %d\n", e1, q1, e2, q2, f, (int)dps.size());
                    std::fprintf(out, "%s\n", fb.get_bin_value() < 0 ? "miss" : bstr(fb).c_str());
                  }
              }
          }
          // ---- TOF: every (detector pair, unmashed timing position) of the bin belongs to the bin
          if (p.is_tof_data() && (to_model || idx % 5 == 0))
            {
              std::vector<DetectionPositionPair<>> all;
              pn->get_all_det_pos_pairs_for_bin(all, b, false);
              ++oracle_checks;
              if (all.size() % dps.size() != 0 || all.empty())
                ofail("det-tof-count", "number of (detector pair, timing position) combinations of bin " + bstr(b)
                                           + " is not a multiple of the number of detector pairs");
              const std::size_t st = all.size() > 8 ? all.size() / 4 : 1;
              for (std::size_t k = 0; k < all.size(); k += st)
                {
                  Bin fb;
                  ++oracle_checks;
                  if (pn->get_bin_for_det_pos_pair(fb, all[k]) != Succeeded::yes || fb.segment_num() != sg || fb.view_num() != v
                      || fb.axial_pos_num() != a || fb.tangential_pos_num() != tp || fb.timing_pos_num() != t)
                    ofail("det-tof-bin", "a (detector pair, timing position " + std::to_string((int)all[k].timing_pos()) + ") listed for bin "
                                             + bstr(b) + " belongs to bin " + bstr(fb));
                }
              // opposite TOF bins: the detection coordinates are exchanged
              if (mash == 1 && lo == hi && t != 0 && -t >= mint && -t <= maxt)
                {
                  CartesianCoordinate3D<float> c1, c2, o1, o2;
                  pn->find_cartesian_coordinates_of_detection(c1, c2, b);
                  pn->find_cartesian_coordinates_of_detection(o1, o2, Bin(sg, v, a, tp, -t, 1.F));
                  ++oracle_checks;
                  if (norm(c1 - o2) > 1e-3 || norm(c2 - o1) > 1e-3)
                    ofail("det-tof-direction", "opposite TOF bins do not have exchanged detection coordinates at bin " + bstr(b));
                }
            }
        }
    }
}

// ---------------------------------------------------------------------------------------------
static void
write_cfg_line(const Cfg& c, const Scanner& sc)
{
  char buf[1024];
  std::snprintf(buf, sizeof buf, "cfg %s %d %d %d %d %d %d %d %d %d %s %s %s %s %s %d %d %d %d %s %s %s %s %d", c.geom.c_str(),
                sc.get_num_detectors_per_ring(), sc.get_num_rings(), c.span, c.max_delta, c.views, c.ntang, c.arc ? 1 : 0, c.tof_mash,
                sc.is_tof_ready() ? sc.get_max_num_timing_poss() : 0, H(sc.get_effective_ring_radius()), H(sc.get_ring_spacing()),
                H(sc.get_default_bin_size()), H(sc.get_intrinsic_azimuthal_tilt()), H(sc.is_tof_ready() ? sc.get_size_of_timing_pos() : 0.F),
                sc.get_num_axial_blocks_per_bucket(), sc.get_num_transaxial_blocks_per_bucket(), sc.get_num_axial_crystals_per_block(),
                sc.get_num_transaxial_crystals_per_block(), H(sc.get_axial_crystal_spacing()), H(sc.get_transaxial_crystal_spacing()),
                H(sc.get_axial_block_spacing()), H(sc.get_transaxial_block_spacing()), sc.get_max_num_non_arccorrected_bins());
  cur_cfg = buf;
  if (!c.name.empty())
    cur_cfg += " (" + c.name + ")";
  std::fprintf(ops, "%s\n", buf);
}

static shared_ptr<ProjDataInfo>
build(const Cfg& c, shared_ptr<Scanner>& scanner)
{
  cur_cfg = "constructing scanner " + c.geom + " " + c.name + " N=" + std::to_string(c.N) + " R=" + std::to_string(c.R);
  scanner = make_scanner(c);
  if (!scanner || scanner->get_type() == Scanner::Unknown_scanner)
    return shared_ptr<ProjDataInfo>();
  write_cfg_line(c, *scanner);
  shared_ptr<ProjDataInfo> pdi;
  try
    {
      pdi = vh::make_pdi(scanner, c.span, c.max_delta, c.views, c.ntang, c.arc, c.tof_mash);
      if (c.geom != "cyl" && c.tof_mash > 0)
        pdi->set_tof_mash_factor(c.tof_mash); // (construct_proj_data_info ignores the TOF mashing factor for blocks / generic scanners)
      // force the lazily built tables, so that range errors show up here
      if (auto pn = dynamic_cast<const ProjDataInfoCylindricalNoArcCorr*>(pdi.get()))
        {
          int d1, d2;
          if (pn->get_view_mashing_factor() == 1)
            pn->get_det_num_pair_for_view_tangential_pos_num(d1, d2, 0, 0);
          std::vector<DetectionPositionPair<>> dps;
          pn->get_all_det_pos_pairs_for_bin(dps, Bin(0, 0, 0, 0), true);
        }
      if (auto pg = dynamic_cast<const ProjDataInfoGenericNoArcCorr*>(pdi.get()))
        {
          int d1, d2;
          pg->get_det_num_pair_for_view_tangential_pos_num(d1, d2, 0, 0);
        }
    }
  catch (...)
    {
      std::fprintf(out, "err\n");
      return shared_ptr<ProjDataInfo>();
    }
  const ProjDataInfoCylindrical* pc = dynamic_cast<const ProjDataInfoCylindrical*>(pdi.get());
  std::ostringstream s;
  s << "segs " << pdi->get_min_segment_num() << " :";
  for (int sg = pdi->get_min_segment_num(); sg <= pdi->get_max_segment_num(); ++sg)
    s << " " << pc->get_min_ring_difference(sg) << "," << pc->get_max_ring_difference(sg) << "," << pdi->get_num_axial_poss(sg);
  s << " | tof " << pdi->get_min_tof_pos_num() << " " << pdi->get_max_tof_pos_num() << " " << pdi->get_num_tof_poss();
  s << " | tang " << pdi->get_min_tangential_pos_num() << " " << pdi->get_max_tangential_pos_num();
  s << " | mash " << scanner->get_num_detectors_per_ring() / 2 / pdi->get_num_views();
  std::fprintf(out, "%s\n", s.str().c_str());
  return pdi;
}

// ---------------------------------------------------------------------------------------------
// blocks / generic geometries: detector coordinate map and bin coordinates from detector positions
static void
run_generic(const Cfg& c, const shared_ptr<Scanner>& scanner, const shared_ptr<ProjDataInfo>& pdi0, vh::Rng& rng)
{
  const ProjDataInfoGenericNoArcCorr* pg = dynamic_cast<const ProjDataInfoGenericNoArcCorr*>(pdi0.get());
  if (!pg)
    {
      ofail("generic-type", "construct_proj_data_info did not return a generic-geometry object");
      return;
    }
  const int N = scanner->get_num_detectors_per_ring(), R = scanner->get_num_rings();
  const double Reff = scanner->get_effective_ring_radius();
  const double spacing = scanner->get_ring_spacing();
  // ---- detector map
  const int nd = thorough ? 400 : 60;
  double prev_psi = -1;
  for (int k = 0; k < nd; ++k)
    {
      const int tang = k < N ? (nd >= N ? k : rng.range(0, N - 1)) : rng.range(0, N - 1);
      const int ax = rng.range(0, R - 1);
      const DetectionPosition<> dp(tang, ax, 0);
      const CartesianCoordinate3D<float> x = scanner->get_coordinate_for_det_pos(dp);
      if (c.geom == "blocks")
        {
          std::fprintf(ops, "dpos %d %d\n", tang, ax);
          std::fprintf(out, "%s %s %s\n", H(x.x()), H(x.y()), H(x.z()));
        }
      // ORACLE: coordinates -> detection position is the inverse, also for coordinates off by less than the rounding
      ++oracle_checks;
      DetectionPosition<> back;
      CartesianCoordinate3D<float> y = x;
      y.x() += 0.0003F * (rng.range(0, 2) - 1);
      y.y() += 0.0003F * (rng.range(0, 2) - 1);
      y.z() += 0.0003F * (rng.range(0, 2) - 1);
      if (scanner->find_detection_position_given_cartesian_coordinate(back, y) != Succeeded::yes || !(back == dp))
        ofail("detmap-roundtrip", "find_detection_position_given_cartesian_coordinate is not the inverse of get_coordinate_for_det_pos");
      // detectors are outside the effective radius of the inscribed circle (blocks), at the right height
      ++oracle_checks;
      const double r = std::sqrt(double(x.x()) * x.x() + double(x.y()) * x.y());
      if (c.geom == "blocks" && !(r >= Reff - 1e-2))
        ofail("detmap-radius", "block detector inside the effective ring radius");
    }
  {
    // ORACLE: tangential index increases counter-clockwise starting near psi=0 (x=0,y=-R), rings increase with z, stack centred
    double last = -1e9;
    int wraps = 0;
    for (int tang = 0; tang < N; ++tang)
      {
        const CartesianCoordinate3D<float> x = scanner->get_coordinate_for_det_pos(DetectionPosition<>(tang, 0, 0));
        double psi = std::atan2(double(x.x()), -double(x.y()));
        if (psi < last)
          {
            psi += 2 * PI;
            if (psi < last)
              ++wraps;
          }
        last = psi;
      }
    ++oracle_checks;
    if (wraps != 0 || last > 2 * PI + PI / 2)
      ofail("detmap-order", "tangential detector index is not increasing counter-clockwise");
    const double z0 = scanner->get_coordinate_for_det_pos(DetectionPosition<>(0, 0, 0)).z();
    const double z1 = scanner->get_coordinate_for_det_pos(DetectionPosition<>(0, R - 1, 0)).z();
    ++oracle_checks;
    if (!near(z0 + z1, 0, 1e-2) || (R > 1 && !(z1 > z0)))
      ofail("detmap-axial", "detector stack is not centred / increasing in z");
  }
  // ---- bins
  const ProjDataInfo& p = *pdi0;
  const int V = p.get_num_views();
  std::vector<int> segs = pick(p.get_min_segment_num(), p.get_max_segment_num(), thorough ? 7 : 5, rng);
  std::vector<int> views = pick(0, V - 1, thorough ? 24 : 10, rng);
  std::vector<int> tps = pick(p.get_min_tangential_pos_num(), p.get_max_tangential_pos_num(), thorough ? 60 : 18, rng);
  int emitted = 0;
  long nbins = 0, exact = 0, missed = 0;
  const double zc = 0; // detector coordinates from the scanner are centred
  const ProjDataInfoBlocksOnCylindricalNoArcCorr* pb = dynamic_cast<const ProjDataInfoBlocksOnCylindricalNoArcCorr*>(pdi0.get());
  const std::vector<int> tofs = pick(p.get_min_tof_pos_num(), p.get_max_tof_pos_num(), 3, rng);
  for (int sg : segs)
    for (int a : pick(p.get_min_axial_pos_num(sg), p.get_max_axial_pos_num(sg), thorough ? 8 : 4, rng))
      for (int v : views)
        for (int tp : tps)
         for (int t : tofs)
          {
            const Bin b(sg, v, a, tp, t, 1.F);
            ++nbins;
            ++total.bins;
            if (pg->get_min_ring_difference(sg) != pg->get_max_ring_difference(sg))
              {
                // axially compressed data: the coordinates must be those of the contributing detector pairs (averaged)
                ++oracle_checks;
                bool threw = false;
                try
                  {
                    (void)p.get_s(b);
                    (void)p.get_m(b);
                  }
                catch (...)
                  {
                    threw = true;
                  }
                if (threw)
                  {
                    known("generic:no-coordinates-for-axially-compressed-bins",
                          "ProjDataInfoGeneric::get_LOR / get_s / get_phi / get_m / get_tantheta call error() for every bin of an axially "
                          "compressed segment (span > 1) of a blocks-on-cylindrical or generic scanner (get_ring_pair_for_segment_axial_pos_num "
                          "\"does not work for data with axial compression\"), although construct_proj_data_info builds such data");
                    continue;
                  }
              }
            int d1, d2, r1, r2;
            pg->get_det_pair_for_bin(d1, r1, d2, r2, b);
            {
              const int per_bucket = scanner->get_num_transaxial_crystals_per_block() * scanner->get_num_transaxial_blocks_per_bucket();
              if (per_bucket > 0 && d1 / per_bucket == d2 / per_bucket)
                continue; // both detectors on the same flat bucket: a degenerate line along the face of the bucket
            }
            const CartesianCoordinate3D<float> x1 = scanner->get_coordinate_for_det_pos(DetectionPosition<>(d1, r1, 0));
            const CartesianCoordinate3D<float> x2 = scanner->get_coordinate_for_det_pos(DetectionPosition<>(d2, r2, 0));
            const double s = p.get_s(b), phi = p.get_phi(b), m = p.get_m(b), tt = p.get_tantheta(b);
            if (t != 0)
              {
                // TOF bins: same line as TOF bin 0, opposite distances for opposite bins, and the round trip keeps the TOF bin
                const Bin b0(sg, v, a, tp, 0, 1.F);
                ++oracle_checks;
                if (p.get_s(b0) != s || p.get_phi(b0) != phi || p.get_m(b0) != m || p.get_tantheta(b0) != tt)
                  ofail("generic-tof-spatial", "the spatial coordinates of bin " + bstr(b) + " differ from those of its TOF bin 0");
                const double k = p.get_k(b);
                if (!near(p.get_k(Bin(sg, v, a, tp, -t, 1.F)), -k, 1e-5 * (1 + std::fabs(k))) || !((t > 0) == (k > 0)))
                  ofail("generic-k-antisym", "opposite TOF bins do not have opposite distances at bin " + bstr(b));
                ++oracle_checks;
                LORAs2Points<float> phys(x1, x2);
                Bin nb;
                bool err = false;
                try
                  {
                    nb = p.get_bin(phys, p.get_tof_delta_time(b));
                  }
                catch (...)
                  {
                    err = true;
                  }
                if (err)
                  known("generic:get_bin-no-tof",
                        "ProjDataInfoGenericNoArcCorr::get_bin calls error() (\"does not support TOF yet\") when given the time difference of a "
                        "bin with a non-zero TOF position of TOF blocks-on-cylindrical / generic data (set_tof_mash_factor on a TOF-ready "
                        "scanner), so the round trip cannot return the same TOF bin");
                else if (nb.get_bin_value() <= 0 || nb.segment_num() != sg || nb.view_num() != v || nb.axial_pos_num() != a
                         || nb.tangential_pos_num() != tp || nb.timing_pos_num() != t)
                  ofail("generic-tof-roundtrip", "get_bin of the detector positions and time difference of bin " + bstr(b) + " is not that bin");
                continue; // (everything below does not depend on the TOF position)
              }
            if (pb)
              {
                // ---- detection coordinates -> detection positions / bin (find_scanner_coordinates_given_cartesian_coordinates,
                //      find_bin_given_cartesian_coordinates_of_detection of the blocks geometry)
                CartesianCoordinate3D<float> c1, c2;
                pb->find_cartesian_coordinates_of_detection(c1, c2, b);
                int e1 = -1, e2 = -1, q1 = -1, q2 = -1;
                ++oracle_checks;
                ++total.found;
                if (pb->find_scanner_coordinates_given_cartesian_coordinates(e1, e2, q1, q2, c1, c2) != Succeeded::yes || e1 != d1 || e2 != d2
                    || q1 != r1 || q2 != r2)
                  ofail("blocks-find-scanner-coordinates",
                        "find_scanner_coordinates_given_cartesian_coordinates does not find the detectors of bin " + bstr(b)
                            + " from find_cartesian_coordinates_of_detection");
                Bin fb;
                fb.set_bin_value(1);
                pb->find_bin_given_cartesian_coordinates_of_detection(fb, c1, c2);
                ++oracle_checks;
                if (fb.get_bin_value() < 0 || fb.segment_num() != sg || fb.view_num() != v || fb.axial_pos_num() != a
                    || fb.tangential_pos_num() != tp)
                  ofail("blocks-find-bin", "find_bin_given_cartesian_coordinates_of_detection(find_cartesian_coordinates_of_detection(bin)) is "
                                               + (fb.get_bin_value() < 0 ? std::string("miss") : bstr(fb)) + " for bin " + bstr(b));
                // exchanged points: the same bin
                pb->find_bin_given_cartesian_coordinates_of_detection(fb, c2, c1);
                ++oracle_checks;
                if (fb.get_bin_value() < 0 || fb.segment_num() != sg || fb.view_num() != v || fb.axial_pos_num() != a
                    || fb.tangential_pos_num() != tp)
                  ofail("blocks-find-bin-exchanged", "find_bin_given_cartesian_coordinates_of_detection with the two points exchanged is "
                                                         + (fb.get_bin_value() < 0 ? std::string("miss") : bstr(fb)) + " for bin " + bstr(b));
              }
            if (emitted < (thorough ? 300 : 60) && rng.range(0, 3) == 0)
              {
                ++emitted;
                std::fprintf(ops, "blor %s %s %s %s %s %s\n", H(x1.x()), H(x1.y()), H(x1.z()), H(x2.x()), H(x2.y()), H(x2.z()));
                std::fprintf(out, "%s %s %s %s\n", H(s), H(phi), H(m), H(tt));
              }
            // ORACLE: find_cartesian_coordinates_of_detection = the detectors' positions (relative to the first ring)
            ++oracle_checks;
            CartesianCoordinate3D<float> c1, c2;
            pg->find_cartesian_coordinates_of_detection(c1, c2, b);
            const double zs = scanner->get_coordinate_for_det_pos(DetectionPosition<>(0, 0, 0)).z();
            if (!near(c1.x(), x1.x(), 1e-3) || !near(c1.y(), x1.y(), 1e-3) || !near(c1.z() + zs, x1.z(), 1e-3) || !near(c2.x(), x2.x(), 1e-3)
                || !near(c2.y(), x2.y(), 1e-3) || !near(c2.z() + zs, x2.z(), 1e-3))
              ofail("generic-detection", "find_cartesian_coordinates_of_detection differs from the detector map at bin " + bstr(b));
            // ORACLE: bin coordinates = line through the two detectors
            ++oracle_checks;
            const Line l = align(line_through(x1, x2), phi);
            const double rr = std::max(std::hypot(double(x1.x()), double(x1.y())), std::hypot(double(x2.x()), double(x2.y())));
            const double ax_len = spacing * R;
            if (!near(l.s, s, 2e-4 * rr))
              ofail("generic-s", "get_s differs from the offset of the line through the detectors at bin " + bstr(b));
            if (!near(l.phi, phi, 2e-4))
              ofail("generic-phi", "get_phi differs from the direction of the line through the detectors at bin " + bstr(b));
            if (!near(l.m - zc, m, 2e-4 * ax_len))
              ofail("generic-m", "get_m differs from the axial midpoint of the line through the detectors at bin " + bstr(b));
            if (!near(l.tantheta, tt, 2e-4 * (1 + std::fabs(tt)) * rr * rr / std::max(1e-9, rr * rr - s * s)))
              ofail("generic-tantheta", "get_tantheta differs from the obliqueness of the line through the detectors at bin " + bstr(b));
            // ORACLE: antisymmetry between opposite segments
            if (a <= p.get_max_axial_pos_num(-sg))
              {
                ++oracle_checks;
                const Bin bo(-sg, v, a, tp, 0, 1.F);
                if (!near(p.get_tantheta(bo), -tt, 1e-4 * (1 + std::fabs(tt))) || !near(p.get_s(bo), s, 1e-4 * rr)
                    || !near(p.get_phi(bo), phi, 1e-4))
                  ofail("generic-antisym", "opposite segments do not have opposite obliqueness (same s, phi) at bin " + bstr(b));
              }
            // ORACLE round trip 1: the physical LOR (pair of detector positions) is converted back to the same bin
            {
              ++oracle_checks;
              LORAs2Points<float> phys(x1, x2);
              Bin nb;
              bool err = false;
              try
                {
                  nb = p.get_bin(phys, 0.);
                }
              catch (...)
                {
                  err = true;
                }
              if (err || nb.get_bin_value() <= 0 || !(nb == b))
                ofail("generic-physical-roundtrip", "get_bin of the pair of detector positions of bin " + bstr(b) + " is not that bin");
            }
            // ORACLE round trip 2 (the property's statement): the LOR reported by get_LOR
            {
              ++oracle_checks;
              LORInAxialAndNoArcCorrSinogramCoordinates<float> lor;
              p.get_LOR(lor, b);
              LORAs2Points<float> pts;
              lor.get_intersections_with_cylinder(pts, lor.radius());
              Bin nb;
              bool err = false;
              try
                {
                  nb = p.get_bin(pts, 0.);
                }
              catch (...)
                {
                  err = true;
                }
              if (err)
                ofail("generic-roundtrip-exception", "get_bin(get_LOR(bin)) throws at bin " + bstr(b));
              else if (nb.get_bin_value() <= 0)
                {
                  ++missed;
                  known("generic:get_bin-needs-exact-crystal-coordinates",
                        "ProjDataInfoGenericNoArcCorr::get_bin only looks the two end points up in the crystal map (rounded to 0.001/0.01/0.1 mm) "
                        "instead of finding the nearest detectors: the LOR reported by get_LOR (end points on the cylinder through the outer "
                        "crystal) is reported as a miss for most bins of a blocks-on-cylindrical or generic scanner, none of which is axially compressed");
                }
              else if (nb == b)
                ++exact;
              else
                {
                  const int dv = std::abs(nb.view_num() - v);
                  const bool wrap = dv > V - dv;
                  const int dview = std::min(dv, V - dv);
                  const int dseg = wrap ? nb.segment_num() + sg : nb.segment_num() - sg;
                  const int dtp = wrap ? nb.tangential_pos_num() + tp : nb.tangential_pos_num() - tp;
                  if (dseg != 0 || dview > 1 || std::abs(dtp) > 1 || std::abs(nb.axial_pos_num() - a) > 1)
                    ofail("generic-roundtrip-step", "get_bin(get_LOR(bin)) is more than one step away: " + bstr(b) + " -> " + bstr(nb));
                }
            }
          }
  total.rt_same += exact;
  total.rt_miss += missed;
}

// ---------------------------------------------------------------------------------------------
// overlap_interpolate on float rows with dyadic box boundaries (exactly representable), and ArcCorrection
static void
run_overlap(vh::Rng& rng, int ncases)
{
  for (int k = 0; k < ncases; ++k)
    {
      const int nin = rng.range(1, 12), nout = rng.range(1, 12);
      const int kind = rng.range(0, 5);
      std::vector<float> ic(nin + 1), oc(nout + 1), iv(nin), ov(nout);
      // boundaries on a grid of 1/64 (sometimes plus a sliver of 2^-18 to exercise the epsilon rule)
      double x = rng.range(-200, 200) / 64.0;
      for (int i = 0; i <= nin; ++i)
        {
          ic[i] = (float)x;
          x += rng.range(1, 96) / 64.0;
        }
      double y = kind == 0 ? ic[0] : (kind == 1 ? ic[0] - rng.range(1, 200) / 64.0 : ic[0] + rng.range(-300, 300) / 64.0);
      for (int j = 0; j <= nout; ++j)
        {
          oc[j] = (float)y;
          if (kind == 3 && rng.range(0, 2) == 0)
            { // coincide with an input boundary, or miss it by a sliver
              const int i = rng.range(0, nin);
              if (ic[i] > oc[j > 0 ? j - 1 : 0] || j == 0)
                oc[j] = ic[i] + (rng.range(0, 2) - 1) * (1.0F / 262144.F);
            }
          y = oc[j] + rng.range(1, 96) / 64.0;
        }
      if (kind == 1)
        oc[nout] = std::max(oc[nout], ic[nin] + rng.range(0, 64) / 64.0F); // output covers input
      bool ok = true;
      for (int j = 0; j < nout; ++j)
        if (!(oc[j + 1] > oc[j]))
          ok = false;
      if (!ok)
        continue;
      for (int i = 0; i < nin; ++i)
        iv[i] = (kind == 4 ? 1.F : (float)(rng.range(-4096, 4096) / 256.0));
      for (int j = 0; j < nout; ++j)
        ov[j] = (float)(rng.range(-1024, 1024) / 64.0);
      const bool only_add = rng.range(0, 3) == 0, assign_rest = rng.range(0, 3) != 0;
      std::ostringstream line;
      line << "ovl " << (only_add ? 1 : 0) << " " << (assign_rest ? 1 : 0) << " |";
      for (float v : oc)
        line << " " << vh::hex(v);
      line << " |";
      for (float v : ic)
        line << " " << vh::hex(v);
      line << " |";
      for (float v : iv)
        line << " " << vh::hex(v);
      line << " |";
      for (float v : ov)
        line << " " << vh::hex(v);
      std::vector<float> res = ov;
      overlap_interpolate(res.begin(), res.end(), oc.begin(), oc.end(), iv.begin(), iv.end(), ic.begin(), ic.end(), only_add, assign_rest);
      std::fprintf(ops, "%s\n", line.str().c_str());
      std::ostringstream o;
      for (std::size_t j = 0; j < res.size(); ++j)
        o << (j ? " " : "") << vh::hex(res[j]);
      std::fprintf(out, "%s\n", o.str().c_str());
      // ORACLE: integral preserved when the output range covers the input range (overwrite mode), up to slivers
      if (!only_add && assign_rest && oc[0] <= ic[0] && oc[nout] >= ic[nin])
        {
          ++oracle_checks;
          double sin_ = 0, sout = 0, mag = 0;
          for (int i = 0; i < nin; ++i)
            {
              sin_ += double(iv[i]) * (double(ic[i + 1]) - ic[i]);
              mag += std::fabs(double(iv[i])) * (double(ic[i + 1]) - ic[i]);
            }
          for (int j = 0; j < nout; ++j)
            sout += res[j];
          if (!near(sin_, sout, 1e-3 * mag + 1e-6))
            ofail("overlap-conserve", "overlap_interpolate does not preserve the integral although the output covers the input");
        }
    }
}

// ORACLE (statement) for one arc-corrected row: the integral over the tangential coordinate is preserved when the arc-corrected range
// covers the data; uniform data stay uniform away from the edges; arc-corrected bins outside the measured range are zero
static void
arc_row_oracle(const Array<1, float>& in, const Array<1, float>& res, int imin, int imax, int omin, int omax, double Reff, double ang,
               double dout, bool uniform_row, int N, const char* tag = "")
{
  const double in_lo = Reff * std::sin((imin - 0.5) * ang), in_hi = Reff * std::sin((imax + 0.5) * ang);
  const double out_lo = (omin - 0.5) * dout, out_hi = (omax + 0.5) * dout;
  double sin_ = 0, mag = 0, sout = 0;
  for (int i = imin; i <= imax; ++i)
    {
      const double w = Reff * (std::sin((i + 0.5) * ang) - std::sin((i - 0.5) * ang));
      sin_ += in[i] * w;
      mag += std::fabs(in[i]) * w;
    }
  for (int j = omin; j <= omax; ++j)
    sout += res[j] * dout;
  if (out_lo <= in_lo && out_hi >= in_hi)
    {
      ++oracle_checks;
      if (!near(sin_, sout, 2e-3 * mag + 1e-6))
        ofail(std::string("arc-integral") + tag, "arc correction does not preserve the integral over the tangential coordinate: in "
                                                     + std::to_string(sin_) + " out " + std::to_string(sout));
    }
  if (uniform_row)
    for (int j = omin; j <= omax; ++j)
      {
        const double lo = (j - 0.5) * dout, hi = (j + 0.5) * dout;
        ++oracle_checks;
        if (lo >= in_lo + 1e-3 && hi <= in_hi - 1e-3)
          {
            if (!near(res[j], 1.0, 2e-3))
              ofail(std::string("arc-uniform-data") + tag, "arc correction of uniform data is not uniform away from the edges (N="
                                                               + std::to_string(N) + " j=" + std::to_string(j)
                                                               + " value=" + std::to_string(res[j]) + ")");
          }
        else if (hi <= in_lo - 1e-3 || lo >= in_hi + 1e-3)
          {
            if (res[j] != 0)
              ofail(std::string("arc-outside") + tag, "arc-corrected bin outside the measured range is not zero");
          }
      }
}

static void
run_arc(vh::Rng& rng, int ncases)
{
  for (int k = 0; k < ncases; ++k)
    {
      Cfg c;
      c.N = 2 * rng.range(8, thorough ? 160 : 64);
      c.R = 1;
      c.radius = (float)(rng.range(400, 4000) / 8.0);
      c.doi = (float)(rng.range(0, 80) / 8.0);
      c.binsize = (float)(rng.range(4, 40) / 8.0);
      c.span = 1;
      c.max_delta = 0;
      c.views = c.N / 2;
      const int maxtang = c.N - 1;
      c.ntang = rng.range(3, maxtang);
      // keep away from the extreme tangential positions in most cases
      if (rng.range(0, 3) != 0)
        c.ntang = std::max(3, std::min(c.ntang, (int)(c.N * 0.6)));
      shared_ptr<Scanner> sc = make_scanner(c);
      shared_ptr<ProjDataInfo> pdi = vh::make_pdi(sc, 1, 0, c.views, c.ntang, false, 0);
      ArcCorrection ac;
      int mode = rng.range(0, 2);
      if (k == 0)
        mode = 0;
      int nout = 0;
      float bs = 0;
      Succeeded ok = Succeeded::no;
      if (mode == 0)
        {
          nout = rng.range(1, 2 * c.N);
          bs = (float)(rng.range(2, 64) / 8.0);
          if (k == 0)
            nout = 5, bs = 2.F; // arc-corrected range ends inside the data
          ok = ac.set_up(pdi, nout, bs);
        }
      else if (mode == 1)
        {
          nout = rng.range(1, 2 * c.N);
          ok = ac.set_up(pdi, nout);
        }
      else
        ok = ac.set_up(pdi);
      if (ok != Succeeded::yes)
        {
          ofail("arc-setup", "ArcCorrection::set_up failed for a non-arc-corrected geometry");
          continue;
        }
      const ProjDataInfoCylindricalArcCorr& pa = ac.get_arc_corrected_proj_data_info();
      const ProjDataInfoCylindricalNoArcCorr& pn = ac.get_not_arc_corrected_proj_data_info();
      const int imin = pn.get_min_tangential_pos_num(), imax = pn.get_max_tangential_pos_num();
      const int omin = pa.get_min_tangential_pos_num(), omax = pa.get_max_tangential_pos_num();
      const double Reff = sc->get_effective_ring_radius();
      const double dout = pa.get_tangential_sampling();
      const double ang = pn.get_angular_increment();
      Sinogram<float> sino_in = pn.get_empty_sinogram(0, 0);
      for (int rep = 0; rep < 3 && rep <= sino_in.get_max_view_num(); ++rep)
        for (int i = imin; i <= imax; ++i)
          sino_in[rep][i] = rep == 0 ? 1.F : (rep == 1 ? (float)(rng.range(0, 4096) / 64.0) : (float)(rng.range(-2048, 2048) / 64.0));
      const Sinogram<float> sino_out = ac.do_arc_correction(sino_in);
      for (int rep = 0; rep < 3 && rep <= sino_in.get_max_view_num(); ++rep)
        {
          const Array<1, float>& in = sino_in[rep];
          const Array<1, float>& res = sino_out[rep];
          std::ostringstream line, o;
          line << "arc " << c.N << " " << vh::hex(Reff) << " " << imin << " " << imax << " " << omin << " " << omax << " " << vh::hex(dout)
               << " " << vh::hex(ang) << " |";
          for (int i = imin; i <= imax; ++i)
            line << " " << vh::hex(in[i]);
          for (int j = omin; j <= omax; ++j)
            o << (j > omin ? " " : "") << vh::hex(res[j]);
          std::fprintf(ops, "%s\n", line.str().c_str());
          std::fprintf(out, "%s\n", o.str().c_str());
          arc_row_oracle(in, res, imin, imax, omin, omax, Reff, ang, dout, rep == 0, c.N);
        }
    }
}

// ---------------------------------------------------------------------------------------------
static int largest_complete_max_delta(int span, int R, vh::Rng& rng, bool full);
// the five ArcCorrection overloads other than Sinogram (each with its own loop) on multi-ring, view-mashed, axially compressed and TOF
// data, compared with the row-by-row result of the Sinogram overload (whose rows go to the model as `arc` lines)
template <class A>
static bool
same_all(const A& x, const A& y)
{
  if (x.size_all() != y.size_all())
    return false;
  auto i = x.begin_all_const();
  auto j = y.begin_all_const();
  for (; i != x.end_all_const(); ++i, ++j)
    if (!(*i == *j))
      return false;
  return true;
}

static void
emit_arc_row(const ArcCorrection& ac, const Scanner& sc, const Array<1, float>& in, const Array<1, float>& res)
{
  const ProjDataInfoCylindricalArcCorr& pa = ac.get_arc_corrected_proj_data_info();
  const ProjDataInfoCylindricalNoArcCorr& pn = ac.get_not_arc_corrected_proj_data_info();
  const int imin = pn.get_min_tangential_pos_num(), imax = pn.get_max_tangential_pos_num();
  const int omin = pa.get_min_tangential_pos_num(), omax = pa.get_max_tangential_pos_num();
  std::ostringstream line, o;
  line << "arc " << sc.get_num_detectors_per_ring() << " " << vh::hex(sc.get_effective_ring_radius()) << " " << imin << " " << imax << " "
       << omin << " " << omax << " " << vh::hex(pa.get_tangential_sampling()) << " " << vh::hex(pn.get_angular_increment()) << " |";
  for (int i = imin; i <= imax; ++i)
    line << " " << vh::hex(in[i]);
  for (int j = omin; j <= omax; ++j)
    o << (j > omin ? " " : "") << vh::hex(res[j]);
  std::fprintf(ops, "%s\n", line.str().c_str());
  std::fprintf(out, "%s\n", o.str().c_str());
  ++total.arc_rows;
}

static void
run_arc_overloads(vh::Rng& rng, int ncases)
{
  for (int k = 0; k < ncases; ++k)
    {
      Cfg c;
      c.N = 2 * rng.range(4, thorough ? 40 : 20);
      c.R = rng.range(2, 4);
      c.radius = (float)(rng.range(400, 4000) / 8.0);
      c.doi = (float)(rng.range(0, 80) / 8.0);
      c.binsize = (float)(rng.range(4, 40) / 8.0);
      c.span = (k % 2) ? 3 : 1;
      c.max_delta = largest_complete_max_delta(c.span, c.R, rng, rng.range(0, 1) == 0);
      std::vector<int> divs;
      for (int d = 1; d <= c.N / 4; ++d)
        if ((c.N / 2) % d == 0)
          divs.push_back(d);
      c.views = c.N / 2 / (k % 3 == 0 ? 1 : divs[rng.range(0, (int)divs.size() - 1)]);
      c.ntang = rng.range(3, c.N - 1);
      if (k % 4 == 1)
        {
          c.tof_bins = 3;
          c.tof_mash = 1;
          c.tofsize = 500.F;
        }
      char buf[256];
      std::snprintf(buf, sizeof buf, "ArcCorrection overloads: N=%d R=%d span=%d max_delta=%d views=%d ntang=%d tof=%d", c.N, c.R, c.span,
                    c.max_delta, c.views, c.ntang, c.tof_bins);
      cur_cfg = buf;
      shared_ptr<Scanner> sc = make_scanner(c);
      shared_ptr<ProjDataInfo> pdi = vh::make_pdi(sc, c.span, c.max_delta, c.views, c.ntang, false, c.tof_mash);
      ArcCorrection ac;
      const int mode = rng.range(0, 2);
      Succeeded ok = mode == 0   ? ac.set_up(pdi, rng.range(1, 2 * c.N), (float)(rng.range(4, 64) / 8.0))
                     : mode == 1 ? ac.set_up(pdi, rng.range(1, 2 * c.N))
                                 : ac.set_up(pdi);
      ++oracle_checks;
      if (ok != Succeeded::yes)
        {
          ofail("arc-setup", "ArcCorrection::set_up failed for a non-arc-corrected geometry");
          continue;
        }
      shared_ptr<const ProjDataInfo> apdi = ac.get_arc_corrected_proj_data_info_sptr();
      shared_ptr<ExamInfo> exam(new ExamInfo);
      ProjDataInMemory in(exam, pdi), ref(exam, apdi), outp(exam, apdi);
      outp.fill(-77.F); // every viewgram must be overwritten
      int mint = pdi->get_min_tof_pos_num(), maxt = pdi->get_max_tof_pos_num();
      ++oracle_checks;
      if (apdi->get_num_tof_poss() != pdi->get_num_tof_poss() || apdi->get_min_tof_pos_num() != mint)
        {
          known("arccorrection:tof-positions-dropped",
                "ArcCorrection::set_up builds the arc-corrected ProjDataInfo without the TOF mashing factor of the input, so it is non-TOF "
                "for TOF input: do_arc_correction(ProjData&, const ProjData&) calls set_viewgram with timing positions the output does not "
                "have (error: timing_pos_num out of range) and the other overloads return objects whose timing position is outside their "
                "own ProjDataInfo");
          mint = maxt = 0; // only the central TOF position can be compared
        }
      const int mins = pdi->get_min_segment_num(), maxs = pdi->get_max_segment_num();
      // input: positive values on a grid of 1/64; reference: the Sinogram overload, sinogram by sinogram
      int emitted = 0;
      for (int t = mint; t <= maxt; ++t)
        for (int sg = mins; sg <= maxs; ++sg)
          {
            SegmentBySinogram<float> seg = pdi->get_empty_segment_by_sinogram(sg, false, t);
            for (auto it = seg.begin_all(); it != seg.end_all(); ++it)
              *it = (float)(rng.range(1, 4096) / 64.0);
            in.set_segment(seg);
            for (int a = seg.get_min_axial_pos_num(); a <= seg.get_max_axial_pos_num(); ++a)
              {
                const Sinogram<float> si = in.get_sinogram(a, sg, false, t);
                const Sinogram<float> so = ac.do_arc_correction(si);
                ref.set_sinogram(so);
                if (emitted < 3 && rng.range(0, 3) == 0)
                  {
                    ++emitted;
                    const int v = rng.range(si.get_min_view_num(), si.get_max_view_num());
                    emit_arc_row(ac, *sc, si[v], so[v]);
                  }
              }
          }
      auto fail = [&](const char* what, int sg, int t) {
        ofail(std::string("arc-overload-") + what, std::string("ArcCorrection::do_arc_correction(") + what
                                                       + ") differs from the sinogram-by-sinogram result (segment " + std::to_string(sg)
                                                       + ", TOF position " + std::to_string(t) + ")");
      };
      // ProjData
      ++oracle_checks;
      if (mint == pdi->get_min_tof_pos_num())
        {
          if (ac.do_arc_correction(outp, in) != Succeeded::yes)
            ofail("arc-overload-ProjData-status", "ArcCorrection::do_arc_correction(ProjData) reports failure");
        }
      else
        {
          // (TOF input, non-TOF output: see the known finding) the ProjData overload on the central TOF position only
          shared_ptr<ProjDataInfo> pdi0(pdi->clone());
          pdi0->set_tof_mash_factor(0);
          ProjDataInMemory in0(exam, pdi0);
          for (int sg = pdi->get_min_segment_num(); sg <= pdi->get_max_segment_num(); ++sg)
            {
              SegmentBySinogram<float> seg = pdi0->get_empty_segment_by_sinogram(sg, false, 0);
              const SegmentBySinogram<float> src = in.get_segment_by_sinogram(sg, 0);
              std::copy(src.begin_all_const(), src.end_all_const(), seg.begin_all());
              in0.set_segment(seg);
            }
          if (ac.do_arc_correction(outp, in0) != Succeeded::yes)
            ofail("arc-overload-ProjData-status", "ArcCorrection::do_arc_correction(ProjData) reports failure");
        }
      shared_ptr<VoxelsOnCartesianGrid<float>> image = vh::make_image(*pdi);
      shared_ptr<DataSymmetriesForViewSegmentNumbers> symm(new DataSymmetriesForBins_PET_CartesianGrid(pdi, image));
      for (int t = mint; t <= maxt; ++t)
        for (int sg = mins; sg <= maxs; ++sg)
          {
            const SegmentBySinogram<float> rs = ref.get_segment_by_sinogram(sg, t);
            const SegmentByView<float> rv = ref.get_segment_by_view(sg, t);
            ++oracle_checks;
            if (!same_all(outp.get_segment_by_sinogram(sg, t), rs))
              fail("ProjData", sg, t);
            ++oracle_checks;
            if (!same_all(ac.do_arc_correction(in.get_segment_by_sinogram(sg, t)), rs))
              fail("SegmentBySinogram", sg, t);
            ++oracle_checks;
            if (!same_all(ac.do_arc_correction(in.get_segment_by_view(sg, t)), rv))
              fail("SegmentByView", sg, t);
            // the two-argument forms must overwrite every row
            {
              SegmentBySinogram<float> o = apdi->get_empty_segment_by_sinogram(sg, false, t);
              o.fill(-77.F);
              ac.do_arc_correction(o, in.get_segment_by_sinogram(sg, t));
              ++oracle_checks;
              if (!same_all(o, rs))
                fail("SegmentBySinogram&", sg, t);
              SegmentByView<float> o2 = apdi->get_empty_segment_by_view(sg, false, t);
              o2.fill(-77.F);
              ac.do_arc_correction(o2, in.get_segment_by_view(sg, t));
              ++oracle_checks;
              if (!same_all(o2, rv))
                fail("SegmentByView&", sg, t);
            }
            for (int v : pick(pdi->get_min_view_num(), pdi->get_max_view_num(), thorough ? 8 : 4, rng))
              {
                const Viewgram<float> vin = in.get_viewgram(v, sg, false, t);
                ++oracle_checks;
                if (!same_all(ac.do_arc_correction(vin), ref.get_viewgram(v, sg, false, t)))
                  fail("Viewgram", sg, t);
                Viewgram<float> o = apdi->get_empty_viewgram(v, sg, false, t);
                o.fill(-77.F);
                ac.do_arc_correction(o, vin);
                ++oracle_checks;
                if (!same_all(o, ref.get_viewgram(v, sg, false, t)))
                  fail("Viewgram&", sg, t);
                // related viewgrams (symmetries of a Cartesian grid: up to 8 related (view, segment) pairs)
                const ViewSegmentNumbers vs(v, sg);
                if (symm->is_basic(vs))
                  {
                    const RelatedViewgrams<float> rin = in.get_related_viewgrams(ViewgramIndices(v, sg, t), symm, false, t);
                    const RelatedViewgrams<float> rout = ac.do_arc_correction(rin);
                    ++oracle_checks;
                    bool good = rout.get_num_viewgrams() == rin.get_num_viewgrams();
                    auto ii = rin.begin();
                    for (auto oi = rout.begin(); good && oi != rout.end(); ++oi, ++ii)
                      good = oi->get_view_num() == ii->get_view_num() && oi->get_segment_num() == ii->get_segment_num()
                             && oi->get_timing_pos_num() == t
                             && same_all(*oi, ref.get_viewgram(oi->get_view_num(), oi->get_segment_num(), false, t));
                    if (!good)
                      fail("RelatedViewgrams", sg, t);
                  }
              }
          }
    }
}

// ---------------------------------------------------------------------------------------------
// ONE ArcCorrection object set up again and again: histories A -> B -> A -> C -> B on the same object, where B and C differ from A in
// exactly one of: ring radius / number of detectors per ring (angular increment) with the same tangential range / tangential range /
// default bin size / set_up overload and its arguments / rings and span.  set_up must overwrite every cached quantity
// (_noarccorr_coords, _noarccorr_bin_sizes, _arccorr_coords, tangential_sampling, both ProjDataInfo pointers): after every set_up the
// re-used object is compared bit for bit with a FRESH object set up with the same arguments (every overload of do_arc_correction), its
// rows go to the Lean model's state machine (`acnew` / `acsu` / `acrow`: the model keeps the cached arrays of the object between
// lines) and the property's oracles (integral, uniform -> uniform) run on them.
struct ReuseStep
{
  Cfg c;
  int mode = 0, nout = 1, kind = -1, v0 = 1, m = 1;
  float bs = 1.F;
  bool full_views = true;
};

static Succeeded
reuse_set_up(ArcCorrection& a, const shared_ptr<ProjDataInfo>& pdi, const ReuseStep& st)
{
  return st.mode == 0 ? a.set_up(pdi, st.nout, st.bs) : st.mode == 1 ? a.set_up(pdi, st.nout) : a.set_up(pdi);
}

static void
reuse_fix_segments(ReuseStep& s, vh::Rng& rng)
{
  s.c.max_delta = largest_complete_max_delta(s.c.span, s.c.R, rng, true);
  if (s.c.max_delta < 0)
    {
      s.c.span = 1;
      s.c.max_delta = s.c.R - 1;
    }
}

static ReuseStep
reuse_vary(const ReuseStep& a, int kind, vh::Rng& rng)
{
  ReuseStep b = a;
  b.kind = kind;
  switch (kind)
    {
    case 0: // ring radius (and with it every edge R sin((t +- 1/2) dphi)), same index ranges
      do
        b.c.radius = (float)(rng.range(400, 4000) / 8.0);
      while (std::fabs(b.c.radius - a.c.radius) < 0.03F * a.c.radius);
      break;
    case 1: // number of detectors per ring (angular increment), same tangential range
      {
        std::vector<int> ms;
        for (int m = 1; m <= 5; ++m)
          if (m != a.m && 2 * a.v0 * m - 1 >= a.c.ntang)
            ms.push_back(m);
        b.m = ms[rng.range(0, (int)ms.size() - 1)];
        b.c.N = 2 * a.v0 * b.m;
        b.c.views = a.full_views ? b.c.N / 2 : a.v0;
        break;
      }
    case 2: // tangential range
      do
        b.c.ntang = rng.range(3, a.c.N - 1);
      while (b.c.ntang == a.c.ntang);
      break;
    case 3: // default bin size of the scanner (used by set_up(pdi) and set_up(pdi, n)); 0 = "use the central bin size"
      do
        b.c.binsize = rng.range(0, 5) == 0 ? 0.F : (float)(rng.range(4, 40) / 8.0);
      while (b.c.binsize == a.c.binsize);
      if (b.mode == 0)
        b.mode = rng.range(1, 2);
      break;
    case 4: // another overload / other arguments, same input geometry
      do
        {
          b.mode = rng.range(0, 2);
          b.nout = rng.range(1, 2 * a.c.N);
          b.bs = (float)(rng.range(4, 64) / 8.0);
        }
      while (b.mode == a.mode && (b.mode == 2 || (b.nout == a.nout && (b.mode == 1 || b.bs == a.bs))));
      break;
    default: // rings / span: the arc-corrected ProjDataInfo must follow
      do
        b.c.R = rng.range(1, 4);
      while (b.c.R == a.c.R);
      b.c.span = rng.range(0, 1) ? 3 : 1;
      reuse_fix_segments(b, rng);
      break;
    }
  return b;
}

template <class A>
static bool
same_related(const A& x, const A& y)
{
  if (x.get_num_viewgrams() != y.get_num_viewgrams())
    return false;
  auto j = y.begin();
  for (auto i = x.begin(); i != x.end(); ++i, ++j)
    if (i->get_view_num() != j->get_view_num() || i->get_segment_num() != j->get_segment_num()
        || i->get_timing_pos_num() != j->get_timing_pos_num() || !same_all(*i, *j))
      return false;
  return true;
}

static void
run_arc_reuse(vh::Rng& rng, int ncases)
{
  static const char* kind_name[] = { "start", "ring-radius", "detectors-per-ring", "tangential-range", "default-bin-size",
                                     "set_up-arguments", "rings-span" };
  for (int k = 0; k < ncases; ++k)
    {
      ReuseStep A;
      A.v0 = rng.range(6, 12);
      A.m = rng.range(1, 3);
      A.full_views = rng.range(0, 1) == 0;
      A.c.N = 2 * A.v0 * A.m;
      A.c.views = A.full_views ? A.c.N / 2 : A.v0;
      A.c.R = rng.range(1, 3);
      A.c.span = rng.range(0, 2) == 0 ? 3 : 1;
      reuse_fix_segments(A, rng);
      A.c.radius = (float)(rng.range(400, 4000) / 8.0);
      A.c.doi = (float)(rng.range(0, 80) / 8.0);
      A.c.binsize = (float)(rng.range(4, 40) / 8.0);
      A.c.ntang = rng.range(3, A.c.N - 1);
      if (k % 2 == 0)
        A.c.ntang = std::max(3, std::min(A.c.ntang, (int)(A.c.N * 0.6)));
      A.mode = k % 6 == 3 ? 1 + (k / 6) % 2 : k % 3; // (the default bin size only matters for the overloads that use it)
      A.nout = rng.range(1, 2 * A.c.N);
      A.bs = (float)(rng.range(4, 64) / 8.0);
      const ReuseStep B = reuse_vary(A, k % 6, rng), C = reuse_vary(A, rng.range(0, 5), rng);
      const ReuseStep hist[] = { A, B, A, C, B };
      ArcCorrection ac; // the ONE re-used object of this history
      std::fprintf(ops, "acnew\n");
      std::fprintf(out, "ok\n");
      for (int step = 0; step < 5; ++step)
        {
          const ReuseStep& st = hist[step];
          const Cfg& c = st.c;
          char buf[384];
          std::snprintf(buf, sizeof buf,
                        "re-used ArcCorrection object, history %d step %d (%c, differs from A in: %s): N=%d R=%d span=%d max_delta=%d views=%d "
                        "ntang=%d radius=%g default_bin_size=%g set_up overload %d (n=%d bin_size=%g)",
                        k, step, "ABACB"[step], kind_name[st.kind + 1], c.N, c.R, c.span, c.max_delta, c.views, c.ntang, c.radius, c.binsize,
                        st.mode, st.nout, st.bs);
          cur_cfg = buf;
          shared_ptr<Scanner> sc = make_scanner(c);
          shared_ptr<ProjDataInfo> pdi = vh::make_pdi(sc, c.span, c.max_delta, c.views, c.ntang, false, 0);
          ArcCorrection fr; // fresh object, same arguments
          ++oracle_checks;
          if (reuse_set_up(ac, pdi, st) != Succeeded::yes || reuse_set_up(fr, pdi, st) != Succeeded::yes)
            {
              ofail("arc-reuse-setup", "ArcCorrection::set_up failed for a non-arc-corrected geometry");
              break;
            }
          const shared_ptr<const ProjDataInfo> apdi = ac.get_arc_corrected_proj_data_info_sptr();
          const ProjDataInfoCylindricalArcCorr& pa = ac.get_arc_corrected_proj_data_info();
          const ProjDataInfoCylindricalNoArcCorr& pn = ac.get_not_arc_corrected_proj_data_info();
          ++oracle_checks;
          if (ac.get_not_arc_corrected_proj_data_info_sptr().get() != pdi.get() || !(*apdi == *fr.get_arc_corrected_proj_data_info_sptr()))
            {
              ofail("arc-reuse-geometry", "after set_up a re-used ArcCorrection object reports other projection-data geometries than a fresh one");
              break;
            }
          const int imin = pn.get_min_tangential_pos_num(), imax = pn.get_max_tangential_pos_num();
          const int omin = pa.get_min_tangential_pos_num(), omax = pa.get_max_tangential_pos_num();
          const double Reff = sc->get_effective_ring_radius(), dout = pa.get_tangential_sampling(), ang = pn.get_angular_increment();
          const float s0 = pn.get_sampling_in_s(Bin(0, 0, 0, 0));
          // the model's state machine: set_up with what the overload derives (mode 2: the number of positions is data, checked below)
          std::fprintf(ops, "acsu %d %d %s %s %s %d %d %d %s %s\n", st.mode, c.N, H(Reff), H(sc->get_default_bin_size()), H(s0), imin, imax,
                       st.mode == 2 ? pa.get_num_tangential_poss() : st.nout, H(st.bs), H(ang));
          std::fprintf(out, "%d %d %s\n", omin, omax, H(pa.get_tangential_sampling()));
          if (st.mode == 2)
            {
              // set_up(pdi): 2 ceil(max_s / sampling) + 1 positions, max_s = s two bins beyond the last one
              const double max_s = std::max(Reff * std::sin((imax + 2) * ang), -Reff * std::sin((imin - 2) * ang));
              const int half = (pa.get_num_tangential_poss() - 1) / 2;
              ++oracle_checks;
              if (pa.get_num_tangential_poss() % 2 != 1 || half * dout < max_s * (1 - 1e-5) || (half - 1) * dout >= max_s * (1 + 1e-5))
                ofail("arc-reuse-default-size", "set_up(proj_data_info) does not choose 2 ceil(max_s / bin size) + 1 arc-corrected positions");
            }
          // rows: uniform, positive, signed; re-used object -> model and oracles, and bitwise equal to the fresh object
          {
            Sinogram<float> sino_in = pn.get_empty_sinogram(0, 0);
            const int nrep = std::min(3, sino_in.get_num_views());
            for (int rep = 0; rep < nrep; ++rep)
              for (int i = imin; i <= imax; ++i)
                sino_in[rep][i] = rep == 0 ? 1.F : (rep == 1 ? (float)(rng.range(0, 4096) / 64.0) : (float)(rng.range(-2048, 2048) / 64.0));
            const Sinogram<float> so = ac.do_arc_correction(sino_in);
            Sinogram<float> sf = pa.get_empty_sinogram(0, 0);
            sf.fill(-77.F);
            fr.do_arc_correction(sf, sino_in);
            ++oracle_checks;
            if (!same_all(so, sf))
              ofail("arc-reuse-Sinogram", "do_arc_correction(Sinogram) of a re-used ArcCorrection object differs from a fresh object's");
            for (int rep = 0; rep < nrep; ++rep)
              {
                std::ostringstream line, o;
                line << "acrow |";
                for (int i = imin; i <= imax; ++i)
                  line << " " << vh::hex(sino_in[rep][i]);
                for (int j = omin; j <= omax; ++j)
                  o << (j > omin ? " " : "") << vh::hex(so[rep][j]);
                std::fprintf(ops, "%s\n", line.str().c_str());
                std::fprintf(out, "%s\n", o.str().c_str());
                ++total.arc_rows;
                arc_row_oracle(sino_in[rep], so[rep], imin, imax, omin, omax, Reff, ang, dout, rep == 0, c.N, "-reused");
              }
          }
          // every overload, re-used against fresh, on random data
          shared_ptr<ExamInfo> exam(new ExamInfo);
          ProjDataInMemory in(exam, pdi), out_ac(exam, apdi), out_fr(exam, fr.get_arc_corrected_proj_data_info_sptr());
          out_ac.fill(-77.F);
          out_fr.fill(-78.F);
          const int mins = pdi->get_min_segment_num(), maxs = pdi->get_max_segment_num();
          for (int sg = mins; sg <= maxs; ++sg)
            {
              SegmentBySinogram<float> seg = pdi->get_empty_segment_by_sinogram(sg, false, 0);
              for (auto it = seg.begin_all(); it != seg.end_all(); ++it)
                *it = (float)(rng.range(1, 4096) / 64.0);
              in.set_segment(seg);
            }
          auto fail = [&](const char* what, int sg) {
            ofail(std::string("arc-reuse-") + what, std::string("do_arc_correction(") + what
                                                        + ") of a re-used ArcCorrection object differs from a fresh object's (segment "
                                                        + std::to_string(sg) + ")");
          };
          ++oracle_checks;
          if (ac.do_arc_correction(out_ac, in) != Succeeded::yes || fr.do_arc_correction(out_fr, in) != Succeeded::yes)
            ofail("arc-reuse-ProjData-status", "ArcCorrection::do_arc_correction(ProjData) reports failure");
          shared_ptr<VoxelsOnCartesianGrid<float>> image = vh::make_image(*pdi);
          shared_ptr<DataSymmetriesForViewSegmentNumbers> symm(new DataSymmetriesForBins_PET_CartesianGrid(pdi, image));
          for (int sg = mins; sg <= maxs; ++sg)
            {
              ++oracle_checks;
              if (!same_all(out_ac.get_segment_by_sinogram(sg), out_fr.get_segment_by_sinogram(sg)))
                fail("ProjData", sg);
              const SegmentBySinogram<float> ss = in.get_segment_by_sinogram(sg);
              const SegmentByView<float> sv = in.get_segment_by_view(sg);
              ++oracle_checks;
              if (!same_all(ac.do_arc_correction(ss), fr.do_arc_correction(ss)))
                fail("SegmentBySinogram", sg);
              ++oracle_checks;
              if (!same_all(ac.do_arc_correction(sv), fr.do_arc_correction(sv)))
                fail("SegmentByView", sg);
              {
                SegmentBySinogram<float> o1 = apdi->get_empty_segment_by_sinogram(sg, false, 0), o2 = o1;
                o1.fill(-77.F), o2.fill(-78.F);
                ac.do_arc_correction(o1, ss);
                fr.do_arc_correction(o2, ss);
                ++oracle_checks;
                if (!same_all(o1, o2))
                  fail("SegmentBySinogram&", sg);
                SegmentByView<float> p1 = apdi->get_empty_segment_by_view(sg, false, 0), p2 = p1;
                p1.fill(-77.F), p2.fill(-78.F);
                ac.do_arc_correction(p1, sv);
                fr.do_arc_correction(p2, sv);
                ++oracle_checks;
                if (!same_all(p1, p2))
                  fail("SegmentByView&", sg);
              }
              for (int a : pick(ss.get_min_axial_pos_num(), ss.get_max_axial_pos_num(), 2, rng))
                {
                  const Sinogram<float> si = in.get_sinogram(a, sg, false, 0);
                  ++oracle_checks;
                  if (!same_all(ac.do_arc_correction(si), fr.do_arc_correction(si)))
                    fail("Sinogram", sg);
                }
              for (int v : pick(pdi->get_min_view_num(), pdi->get_max_view_num(), thorough ? 6 : 3, rng))
                {
                  const Viewgram<float> vin = in.get_viewgram(v, sg, false, 0);
                  ++oracle_checks;
                  if (!same_all(ac.do_arc_correction(vin), fr.do_arc_correction(vin)))
                    fail("Viewgram", sg);
                  Viewgram<float> o1 = apdi->get_empty_viewgram(v, sg, false, 0), o2 = o1;
                  o1.fill(-77.F), o2.fill(-78.F);
                  ac.do_arc_correction(o1, vin);
                  fr.do_arc_correction(o2, vin);
                  ++oracle_checks;
                  if (!same_all(o1, o2))
                    fail("Viewgram&", sg);
                  if (symm->is_basic(ViewSegmentNumbers(v, sg)))
                    {
                      const RelatedViewgrams<float> rin = in.get_related_viewgrams(ViewgramIndices(v, sg, 0), symm, false, 0);
                      ++oracle_checks;
                      if (!same_related(ac.do_arc_correction(rin), fr.do_arc_correction(rin)))
                        fail("RelatedViewgrams", sg);
                    }
                }
            }
        }
    }
}

// ---------------------------------------------------------------------------------------------
// the other stateful helper of this property's anchors: the lazily computed axial tables of ProjDataInfoCylindrical (m_offset,
// ax_pos_num_offset, ring-pair tables; `ring_diff_arrays_computed`) and the TOF bin table of ProjDataInfo.  An object whose tables were
// already computed and that is then changed (reduce_segment_range, set_ring_spacing there and back, set_tof_mash_factor twice) must report
// bit for bit the coordinates of a FRESH object constructed for the final geometry (oracle only).
static bool
same_coordinates(const ProjDataInfo& p, const ProjDataInfo& q, vh::Rng& rng, std::string& where)
{
  if (p.get_min_segment_num() != q.get_min_segment_num() || p.get_max_segment_num() != q.get_max_segment_num()
      || p.get_min_tof_pos_num() != q.get_min_tof_pos_num() || p.get_max_tof_pos_num() != q.get_max_tof_pos_num())
    {
      where = "segment / TOF range";
      return false;
    }
  for (int sg = p.get_min_segment_num(); sg <= p.get_max_segment_num(); ++sg)
    {
      if (p.get_min_axial_pos_num(sg) != q.get_min_axial_pos_num(sg) || p.get_max_axial_pos_num(sg) != q.get_max_axial_pos_num(sg))
        {
          where = "axial range of segment " + std::to_string(sg);
          return false;
        }
      for (int a : pick(p.get_min_axial_pos_num(sg), p.get_max_axial_pos_num(sg), 4, rng))
        for (int t : pick(p.get_min_tof_pos_num(), p.get_max_tof_pos_num(), 3, rng))
          {
            const Bin b(sg, rng.range(p.get_min_view_num(), p.get_max_view_num()), a,
                        rng.range(p.get_min_tangential_pos_num(), p.get_max_tangential_pos_num()), t, 1.F);
            if (p.get_m(b) != q.get_m(b) || p.get_t(b) != q.get_t(b) || p.get_tantheta(b) != q.get_tantheta(b) || p.get_s(b) != q.get_s(b)
                || p.get_phi(b) != q.get_phi(b) || p.get_k(b) != q.get_k(b) || p.get_sampling_in_m(b) != q.get_sampling_in_m(b)
                || p.get_sampling_in_t(b) != q.get_sampling_in_t(b) || p.get_sampling_in_k(b) != q.get_sampling_in_k(b))
              {
                where = "bin " + bstr(b);
                return false;
              }
          }
    }
  if (p.is_tof_data())
    for (int t = p.get_min_tof_pos_num(); t <= p.get_max_tof_pos_num(); ++t)
      if (p.tof_bin_boundaries_mm[t].low_lim != q.tof_bin_boundaries_mm[t].low_lim
          || p.tof_bin_boundaries_mm[t].high_lim != q.tof_bin_boundaries_mm[t].high_lim
          || p.tof_bin_boundaries_ps[t].low_lim != q.tof_bin_boundaries_ps[t].low_lim
          || p.tof_bin_boundaries_ps[t].high_lim != q.tof_bin_boundaries_ps[t].high_lim)
        {
          where = "TOF bin boundaries of position " + std::to_string(t);
          return false;
        }
  return true;
}

static void
prime_tables(const ProjDataInfo& p)
{
  // (the first coordinate query computes the lazily initialised tables)
  volatile float sink = p.get_m(Bin(0, 0, 0, 0)) + p.get_tantheta(Bin(p.get_max_segment_num(), 0, 0, 0)) + p.get_k(Bin(0, 0, 0, 0));
  (void)sink;
}

static void
run_pdi_reuse(vh::Rng& rng, int ncases)
{
  for (int k = 0; k < ncases; ++k)
    {
      Cfg c;
      c.N = 2 * rng.range(8, 32);
      c.R = rng.range(3, 8);
      c.span = (k % 2) ? 3 : 1;
      c.max_delta = largest_complete_max_delta(c.span, c.R, rng, true);
      c.radius = (float)(rng.range(400, 4000) / 8.0);
      c.doi = (float)(rng.range(0, 80) / 8.0);
      c.spacing = (float)(rng.range(8, 64) / 8.0);
      c.binsize = (float)(rng.range(4, 40) / 8.0);
      c.views = c.N / 2;
      c.arc = k % 3 == 2;
      c.ntang = rng.range(3, c.arc ? c.N / 2 - 1 : c.N - 1);
      const bool tof = k % 2 == 0;
      if (tof)
        {
          c.tof_bins = 9;
          c.tof_mash = 1;
          c.tofsize = 100.F;
        }
      char buf[256];
      std::snprintf(buf, sizeof buf, "re-used ProjDataInfo object: N=%d R=%d span=%d max_delta=%d ntang=%d arc=%d spacing=%g tof=%d", c.N, c.R,
                    c.span, c.max_delta, c.ntang, c.arc ? 1 : 0, c.spacing, tof ? 1 : 0);
      cur_cfg = buf;
      shared_ptr<Scanner> sc = make_scanner(c);
      shared_ptr<ProjDataInfo> pdi = vh::make_pdi(sc, c.span, c.max_delta, c.views, c.ntang, c.arc, c.tof_mash);
      std::string where;
      // (1) reduce_segment_range after the tables were computed
      if (pdi->get_max_segment_num() >= 1)
        {
          shared_ptr<ProjDataInfo> q(pdi->clone());
          prime_tables(*q);
          const int ms = pdi->get_max_segment_num() - 1;
          q->reduce_segment_range(-ms, ms);
          const int md = dynamic_cast<const ProjDataInfoCylindrical&>(*q).get_max_ring_difference(ms);
          shared_ptr<ProjDataInfo> fresh = vh::make_pdi(sc, c.span, md, c.views, c.ntang, c.arc, c.tof_mash);
          ++oracle_checks;
          if (!same_coordinates(*q, *fresh, rng, where))
            ofail("pdi-reuse-reduce_segment_range",
                  "after reduce_segment_range an object whose axial tables were already computed reports other coordinates than a fresh one: " + where);
        }
      // (2) set_ring_spacing: to another value (fresh object: a scanner with that ring spacing) and back (the original object)
      {
        shared_ptr<ProjDataInfo> q(pdi->clone());
        prime_tables(*q);
        Cfg c2 = c;
        do
          c2.spacing = (float)(rng.range(8, 64) / 8.0);
        while (c2.spacing == c.spacing);
        dynamic_cast<ProjDataInfoCylindrical&>(*q).set_ring_spacing(c2.spacing);
        shared_ptr<Scanner> sc2 = make_scanner(c2);
        shared_ptr<ProjDataInfo> fresh = vh::make_pdi(sc2, c.span, c.max_delta, c.views, c.ntang, c.arc, c.tof_mash);
        ++oracle_checks;
        if (!same_coordinates(*q, *fresh, rng, where))
          ofail("pdi-reuse-set_ring_spacing",
                "after set_ring_spacing an object whose axial tables were already computed reports other coordinates than a fresh one: " + where);
        prime_tables(*q);
        dynamic_cast<ProjDataInfoCylindrical&>(*q).set_ring_spacing(c.spacing);
        ++oracle_checks;
        if (!same_coordinates(*q, *pdi, rng, where))
          ofail("pdi-reuse-set_ring_spacing-back", "set_ring_spacing there and back does not give the coordinates of the original object: " + where);
      }
      // (3) set_tof_mash_factor more than once: the TOF bin table must be that of the last factor
      if (tof)
        {
          shared_ptr<ProjDataInfo> q(pdi->clone());
          prime_tables(*q);
          q->set_tof_mash_factor(3);
          shared_ptr<ProjDataInfo> fresh3 = vh::make_pdi(sc, c.span, c.max_delta, c.views, c.ntang, c.arc, 3);
          ++oracle_checks;
          if (!same_coordinates(*q, *fresh3, rng, where))
            ofail("pdi-reuse-set_tof_mash_factor", "a second set_tof_mash_factor does not give the TOF bins of a fresh object: " + where);
          q->set_tof_mash_factor(1);
          ++oracle_checks;
          if (!same_coordinates(*q, *pdi, rng, where))
            ofail("pdi-reuse-set_tof_mash_factor-back", "set_tof_mash_factor there and back does not give the TOF bins of the original object: " + where);
        }
    }
}

// ---------------------------------------------------------------------------------------------
// LOR representation changes (LORCoordinates.inl): constructors / change_representation between LORInCylinderCoordinates,
// LORInAxial(NoArcCorr)SinogramCoordinates and LORAs2Points on generated lines (angles on a grid of pi/64 resp. pi/128)
static void
lor_points(CartesianCoordinate3D<float>& a, CartesianCoordinate3D<float>& b, const LORAs2Points<float>& l)
{
  a = l.p1();
  b = l.p2();
}
static void
run_lor_conversions(vh::Rng& rng, int ncases)
{
  cur_cfg = "LOR representation changes";
  for (int k = 0; k < ncases; ++k)
    {
      const float R = (float)(rng.range(400, 4000) / 8.0);
      // ---- (a) from cylinder coordinates
      {
        // (not exactly through the axis, and not with phi exactly 0 or pi, where float rounding decides the representation)
        int k1 = rng.range(0, 127), k2 = (k1 + rng.range(1, 127)) % 128;
        while (std::abs(k1 - k2) == 64 || k1 + k2 == 64 || k1 + k2 == 192)
          k2 = (k1 + rng.range(1, 127)) % 128;
        const int z1 = rng.range(-40, 40), z2 = rng.range(-40, 40);
        LORInCylinderCoordinates<float> c(R);
        c.p1().psi() = (float)(k1 * PI / 64);
        c.p2().psi() = (float)(k2 * PI / 64);
        c.p1().z() = (float)z1;
        c.p2().z() = (float)z2;
        const LORInAxialAndNoArcCorrSinogramCoordinates<float> na(c);
        const LORInAxialAndSinogramCoordinates<float> si(c);
        std::fprintf(ops, "lc2n %d %d %d %d\n", k1, k2, z1, z2);
        std::fprintf(out, "%s %s %s %s %d\n", H(na.z1()), H(na.z2()), H(na.phi()), H(na.beta()), na.is_swapped() ? 1 : 0);
        const double beta = na.beta();
        const double tol = (4e-6 / std::max(0.02, std::cos(beta)) + 1e-6) * R + 1e-4;
        const LORAs2Points<float> P(c);
        const int f1 = rng.range(-2, 8), f2 = rng.range(-2, 8);
        const CartesianCoordinate3D<float> dv = P.p1() - P.p2();
        const LORAs2Points<float> S(P.p1() + dv * (f1 / 8.F), P.p2() - dv * (f2 / 8.F));
        // standard range and consistency of the two sinogram forms
        ++oracle_checks;
        if (!(na.phi() >= 0 && na.phi() < (float)PI + 1e-6 && std::fabs(na.beta()) <= PI / 2 + 1e-6) || !near(si.phi(), na.phi(), 1e-6)
            || !near(si.s(), R * std::sin(beta), 1e-5 * R) || si.is_swapped() != na.is_swapped() || si.z1() != na.z1() || si.z2() != na.z2())
          ofail("lor-standard-range", "sinogram coordinates made from cylinder coordinates are outside 0<=phi<pi, |beta|<=pi/2 or inconsistent");
        const double d12 = double(c.p1().psi()) - c.p2().psi();
        bool defect_class = d12 > PI - 1e-3;
        auto cmp = [&](const LORAs2Points<float>& Q, const char* what) {
          ++oracle_checks;
          const bool same = norm(Q.p1() - P.p1()) <= tol && norm(Q.p2() - P.p2()) <= tol;
          if (same)
            return;
          const bool exch = norm(Q.p1() - P.p2()) <= tol && norm(Q.p2() - P.p1()) <= tol;
          if (exch && defect_class && lor_dir_defect_present)
            known("lor:cylinder-to-sinogram-direction",
                  "LORInAxialAnd(NoArcCorr)SinogramCoordinates constructed from a LORInCylinderCoordinates with psi1 - psi2 in (pi, 2pi) "
                  "exchanges the two end points but reports is_swapped() == false (get_sino_coords, LORCoordinates.inl): the direction of "
                  "the LOR is reversed");
          else
            ofail(std::string("lor-convert-") + what,
                  std::string("the LOR with cylinder coordinates psi1=") + std::to_string(k1) + "pi/64 psi2=" + std::to_string(k2)
                      + "pi/64 is " + (exch ? "reversed" : "another line") + " after conversion " + what);
        };
        cmp(LORAs2Points<float>(na), "cylinder->noarc-sinogram");
        cmp(LORAs2Points<float>(si), "cylinder->sinogram");
        cmp(LORAs2Points<float>(LORInCylinderCoordinates<float>(na)), "cylinder->noarc-sinogram->cylinder");
        cmp(LORAs2Points<float>(LORInAxialAndNoArcCorrSinogramCoordinates<float>(si)), "cylinder->sinogram->noarc-sinogram");
        cmp(LORAs2Points<float>(LORInAxialAndSinogramCoordinates<float>(na)), "cylinder->noarc-sinogram->sinogram");
        // change_representation from every type into every type (same radius), also from stretched points
        const LOR<float>* from[] = { &c, &na, &si, &P, &S };
        const char* fname[] = { "cylinder", "noarc-sinogram", "sinogram", "points", "stretched-points" };
        for (int i = 0; i < 5; ++i)
          {
            // (sinogram forms made from `c` may already carry the reversed direction: compare like with like)
            LORInCylinderCoordinates<float> yc;
            LORInAxialAndNoArcCorrSinogramCoordinates<float> yn;
            LORInAxialAndSinogramCoordinates<float> ys;
            LORAs2Points<float> yp;
            const bool okc = from[i]->change_representation(yc, R) == Succeeded::yes;
            const bool okn = from[i]->change_representation(yn, R) == Succeeded::yes;
            const bool oks = from[i]->change_representation(ys, R) == Succeeded::yes;
            const bool okp = from[i]->get_intersections_with_cylinder(yp, R) == Succeeded::yes;
            ++oracle_checks;
            if (!okc || !okn || !oks || !okp)
              {
                ofail(std::string("lor-change-representation-fails-") + fname[i], std::string("change_representation of a ") + fname[i]
                                                                                      + " LOR to its own radius reports failure");
                continue;
              }
            {
              // (the cylinder coordinates recomputed from points: an angle of 0 may come out as 2 pi - rounding error, which puts the
              //  LOR into the class psi1 - psi2 in (pi, 2 pi) of the known direction defect)
              const double e12 = double(yc.p1().psi()) - yc.p2().psi();
              defect_class = d12 > PI - 1e-3 || e12 > PI - 1e-3;
            }
            if (i == 1 || i == 2)
              { // reference: the direction this object has
                const LORAs2Points<float> Pi = i == 1 ? LORAs2Points<float>(na) : LORAs2Points<float>(si);
                auto cmp2 = [&](const LORAs2Points<float>& Q, const std::string& what) {
                  ++oracle_checks;
                  if (!(norm(Q.p1() - Pi.p1()) <= tol && norm(Q.p2() - Pi.p2()) <= tol))
                    ofail("lor-change-representation-" + what, "change_representation " + what + " does not give the same directed line");
                };
                cmp2(LORAs2Points<float>(yc), std::string(fname[i]) + "->cylinder");
                cmp2(yp, std::string(fname[i]) + "->points");
                cmp2(LORAs2Points<float>(yn), std::string(fname[i]) + "->noarc-sinogram");
                cmp2(LORAs2Points<float>(ys), std::string(fname[i]) + "->sinogram");
              }
            else
              {
                cmp(LORAs2Points<float>(yc), (std::string(fname[i]) + "->cylinder (change_representation)").c_str());
                cmp(yp, (std::string(fname[i]) + "->points (get_intersections_with_cylinder)").c_str());
                cmp(LORAs2Points<float>(yn), (std::string(fname[i]) + "->noarc-sinogram (change_representation)").c_str());
                cmp(LORAs2Points<float>(ys), (std::string(fname[i]) + "->sinogram (change_representation)").c_str());
              }
          }
      }
      // ---- (b) from explicit sinogram coordinates (constructor brings phi into [0,pi)), to cylinder coordinates
      {
        int kphi = rng.range(-64, 191);
        const int j = rng.range(-63, 63);
        if (kphi % 64 == 0)
          ++kphi; // (phi exactly a multiple of pi: float rounding decides the representation)
        const int z1 = rng.range(-40, 40), z2 = rng.range(-40, 40), sw = rng.range(0, 1);
        const float phi = (float)(kphi * PI / 64), beta = (float)(j * PI / 128);
        const LORInAxialAndNoArcCorrSinogramCoordinates<float> na((float)z1, (float)z2, phi, beta, R, sw != 0);
        const LORInCylinderCoordinates<float> c(na);
        std::fprintf(ops, "lnmk %d %d %d %d %d\n", kphi, j, z1, z2, sw);
        std::fprintf(out, "%s %s %s %s %d\n", H(na.z1()), H(na.z2()), H(na.phi()), H(na.beta()), na.is_swapped() ? 1 : 0);
        std::fprintf(ops, "ln2c %d %d %d %d %d\n", kphi, j, z1, z2, sw);
        std::fprintf(out, "%s %s %s %s\n", H(c.p1().z()), H(c.p1().psi()), H(c.p2().z()), H(c.p2().psi()));
        // ORACLE: the defining parametrisation X = s cos(phi) + a sin(phi), Y = s sin(phi) - a cos(phi); first point (z1) at a > 0
        const double ph = kphi * PI / 64, be = j * PI / 128;
        CartesianCoordinate3D<float> e1((float)z1, (float)(-R * std::cos(ph + be)), (float)(R * std::sin(ph + be)));
        CartesianCoordinate3D<float> e2((float)z2, (float)(-R * std::cos(ph - be + PI)), (float)(R * std::sin(ph - be + PI)));
        if (sw)
          std::swap(e1, e2);
        const double tol = 2e-5 * R + 1e-4;
        auto cmp = [&](const LORAs2Points<float>& Q, const char* what) {
          ++oracle_checks;
          if (!(norm(Q.p1() - e1) <= tol && norm(Q.p2() - e2) <= tol))
            ofail(std::string("lor-sinogram-") + what, std::string("the LOR with phi=") + std::to_string(kphi) + "pi/64 beta=" + std::to_string(j)
                                                          + "pi/128 swapped=" + std::to_string(sw) + " is not the directed line of its definition "
                                                          + what);
        };
        cmp(LORAs2Points<float>(na), "as points");
        cmp(LORAs2Points<float>(c), "as cylinder coordinates");
        const LORInAxialAndSinogramCoordinates<float> si(na);
        const double tol2 = (4e-6 / std::max(0.02, std::cos(be)) + 1e-6) * R + 1e-4;
        ++oracle_checks;
        const LORAs2Points<float> Q(si);
        if (!(norm(Q.p1() - e1) <= tol2 && norm(Q.p2() - e2) <= tol2))
          ofail("lor-sinogram-arc", "LORInAxialAndSinogramCoordinates made from LORInAxialAndNoArcCorrSinogramCoordinates is another directed line");
        const LORInAxialAndSinogramCoordinates<float> si2((float)z1, (float)z2, phi, (float)(R * std::sin(be)), R, sw != 0);
        ++oracle_checks;
        const LORAs2Points<float> Q2(si2);
        if (!(norm(Q2.p1() - e1) <= tol2 && norm(Q2.p2() - e2) <= tol2))
          ofail("lor-sinogram-arc-ctor", "LORInAxialAndSinogramCoordinates(z1,z2,phi,s,R,swapped) is not the directed line of its definition");
      }
    }
}

// ---------------------------------------------------------------------------------------------
static int
largest_complete_max_delta(int span, int R, vh::Rng& rng, bool full)
{
  // ring differences covered by complete segments: |rd| <= first + k*span
  const int first = span % 2 ? (span - 1) / 2 : span / 2;
  if (first > R - 1)
    return -1;
  const int kmax = (R - 1 - first) / span;
  const int k = full ? kmax : rng.range(0, kmax);
  return first + k * span;
}

int
main(int argc, char** argv)
{
  if (argc < 5)
    return 2;
  if (!std::getenv("C12_STDERR"))
    vh::quiet();
  if (!std::getenv("C12_STDERR"))
    std::freopen("/dev/null", "w", stderr); // STIR warnings (e.g. one per missed crystal look-up) are not part of the protocol
  vh::Rng rng(std::strtoull(argv[1], nullptr, 10) * 2654435761ULL + 12);
  thorough = std::string(argv[2]) == "thorough";
  ops = std::fopen(argv[3], "w");
  out = std::fopen(argv[4], "w");
  orc = std::fopen((std::string(argv[4]) + ".oracle").c_str(), "w");
  std::vector<Cfg> cfgs;
  {
    // does the conversion cylinder -> sinogram coordinates keep the direction of a LOR with psi1 - psi2 in (pi, 2pi) ?  (see `known` in run_pdi)
    LORInCylinderCoordinates<float> c(100.F);
    c.p1().psi() = 1.6F * (float)PI, c.p2().psi() = 0.1F * (float)PI, c.p1().z() = 1.F, c.p2().z() = 2.F;
    const LORInAxialAndNoArcCorrSinogramCoordinates<float> na(c);
    const LORInCylinderCoordinates<float> back(na);
    lor_dir_defect_present = back.p1().z() != 1.F;
    // does ProjDataInfoCylindricalArcCorr::get_bin cope with an angle a rounding error below the azimuthal offset ?
    {
      Cfg pc;
      pc.N = 16, pc.R = 1, pc.span = 1, pc.max_delta = 0, pc.views = 4, pc.ntang = 7, pc.arc = true; // (mashed views: positive offset)
      shared_ptr<Scanner> sc = make_scanner(pc);
      shared_ptr<ProjDataInfo> pp = vh::make_pdi(sc, 1, 0, 4, 7, true, 0);
      const ProjDataInfoCylindricalArcCorr& pa = dynamic_cast<const ProjDataInfoCylindricalArcCorr&>(*pp);
      const LORInAxialAndNoArcCorrSinogramCoordinates<float> l(0.F, 0.F, pa.get_phi(Bin(0, 0, 0, 0)) - 1e-6F, 0.F, pa.get_ring_radius(), false);
      view_wrap_defect_present = pa.get_bin(l, 0.).view_num() != 0;
    }
    std::fprintf(ops, "lorfix %d %d\n", lor_dir_defect_present ? 0 : 1, view_wrap_defect_present ? 0 : 1);
    std::fprintf(out, "ok\n");
  }

  // ---- fixed configurations (they also make every candidate-finding class show up for every seed)
  {
    Cfg c;
    c.N = 16, c.R = 3, c.span = 1, c.max_delta = 2, c.views = 8, c.ntang = 15;
    cfgs.push_back(c); // full tangential range
    c.R = 5, c.span = 3, c.max_delta = 4, c.ntang = 9;
    cfgs.push_back(c); // odd span
    c.views = 4;
    cfgs.push_back(c); // + view mashing
    c.views = 8, c.R = 6, c.span = 2, c.max_delta = 5;
    cfgs.push_back(c); // even span
    c.R = 5, c.span = 4, c.max_delta = 1;
    cfgs.push_back(c); // even span clipped below span/2
    c.R = 3, c.span = 1, c.max_delta = 2, c.tof_bins = 5, c.tof_mash = 1, c.tilt = -0.3F;
    cfgs.push_back(c); // TOF, tilt
    c.arc = true;
    cfgs.push_back(c); // arc-corrected TOF
    c.tof_bins = -1, c.tof_mash = 0, c.R = 5, c.span = 3, c.max_delta = 4, c.views = 4, c.ntang = 31;
    cfgs.push_back(c); // arc-corrected, span, mashing, tilt
  }
  // ---- all predefined scanners, non-arc-corrected and arc-corrected
  for (int ty = Scanner::E931; ty != Scanner::Unknown_scanner; ++ty)
    {
      if (ty == Scanner::User_defined_scanner)
        continue;
      Scanner s(static_cast<Scanner::Type>(ty));
      if (s.get_num_detectors_per_ring() <= 0 || s.get_num_rings() <= 0)
        continue; // HiDAC
      for (int arc = 0; arc < 2; ++arc)
        {
          Cfg c;
          c.name = s.get_name();
          c.N = s.get_num_detectors_per_ring();
          c.R = s.get_num_rings();
          const std::string g = s.get_scanner_geometry();
          c.geom = g == "Cylindrical" ? "cyl" : (g == "BlocksOnCylindrical" ? "blocks" : "generic");
          if (c.geom != "cyl" && arc)
            continue;
          c.arc = arc != 0;
          const int kind = rng.range(0, 5);
          c.span = c.geom != "cyl" ? 1 : (kind < 2 ? 1 : (kind < 5 ? 2 * rng.range(1, 5) + 1 : 2 * rng.range(1, 3)));
          while (c.span > 1 && largest_complete_max_delta(c.span, c.R, rng, true) < 0)
            c.span -= 2;
          if (c.span < 1)
            c.span = 1;
          c.max_delta = largest_complete_max_delta(c.span, c.R, rng, rng.range(0, 1) == 0);
          // view mashing: a divisor of N/2 (small ones)
          std::vector<int> divs;
          for (int d = 1; d <= 8; ++d)
            if ((c.N / 2) % d == 0)
              divs.push_back(d);
          const int mash = c.geom != "cyl" ? 1 : divs[rng.range(0, (int)divs.size() - 1) * rng.range(0, 1)];
          c.views = c.N / 2 / mash;
          if (arc)
            {
              const double Reff = s.get_effective_ring_radius();
              const int fit = 2 * (int)std::floor(0.97 * Reff / s.get_default_bin_size()) - 1;
              c.ntang = std::max(1, std::min(s.get_default_num_arccorrected_bins(), fit));
            }
          else
            c.ntang = std::min(s.get_max_num_non_arccorrected_bins(), c.N - 1);
          c.tof_mash = 0;
          if (s.is_tof_ready() && c.geom == "cyl" && rng.range(0, 3) != 0)
            {
              // a mashing factor giving an odd number of TOF bins
              const int mx = s.get_max_num_timing_poss();
              std::vector<int> ok;
              for (int f = 1; f <= mx; ++f)
                if ((mx / f) % 2 == 1)
                  ok.push_back(f);
              if (!ok.empty())
                c.tof_mash = ok[rng.range(0, (int)ok.size() - 1)];
            }
          cfgs.push_back(c);
        }
    }
  // ---- generated cylindrical scanners
  const int ngen = thorough ? 160 : 40;
  for (int k = 0; k < ngen; ++k)
    {
      Cfg c;
      c.N = 2 * rng.range(2, thorough ? 60 : 24);
      c.R = rng.range(1, 9);
      c.radius = (float)(rng.range(200, 4000) / 8.0);
      c.doi = (float)(rng.range(0, 80) / 8.0);
      c.spacing = (float)(rng.range(8, 80) / 8.0);
      c.binsize = (float)(rng.range(4, 40) / 8.0);
      c.tilt = rng.range(0, 2) == 0 ? 0.F : (float)(rng.range(-400, 400) / 1000.0);
      const int kind = rng.range(0, 9);
      c.span = kind < 4 ? 1 : (kind < 8 ? 2 * rng.range(1, 4) + 1 : 2 * rng.range(1, 3));
      while (c.span > 1 && largest_complete_max_delta(c.span, c.R, rng, true) < 0)
        c.span -= (c.span % 2 ? 2 : 1);
      if (c.span < 1)
        c.span = 1;
      c.max_delta = largest_complete_max_delta(c.span, c.R, rng, rng.range(0, 2) != 0);
      if (rng.range(0, 5) == 0)
        c.max_delta = rng.range((c.span - 1) / 2, c.R - 1); // possibly a clipped last segment
      std::vector<int> divs;
      for (int d = 1; d <= c.N / 2; ++d)
        if ((c.N / 2) % d == 0)
          divs.push_back(d);
      c.views = c.N / 2 / divs[rng.range(0, (int)divs.size() - 1) * rng.range(0, 1)];
      if (c.views < 2)
        c.views = c.N / 2; // (with a single view the mashed views span the half circle and the averaged angle is meaningless)
      c.arc = rng.range(0, 2) == 0;
      const bool tof = rng.range(0, 2) == 0;
      c.tof_bins = tof ? rng.range(1, 17) : -1;
      c.tofsize = (float)(rng.range(80, 4000) / 8.0);
      c.tof_mash = 0;
      if (tof && rng.range(0, 5) != 0)
        {
          std::vector<int> ok;
          for (int f = 1; f <= c.tof_bins; ++f)
            if ((c.tof_bins / f) % 2 == 1)
              ok.push_back(f);
          if (!ok.empty())
            c.tof_mash = ok[rng.range(0, (int)ok.size() - 1)];
        }
      if (c.arc)
        {
          const int fit = 2 * (int)std::floor(0.97 * (c.radius + c.doi) / c.binsize) - 1;
          c.ntang = std::max(1, std::min(rng.range(1, 2 * c.N), fit));
        }
      else
        c.ntang = rng.range(0, 3) == 0 ? c.N - 1 : rng.range(1, c.N - 1);
      cfgs.push_back(c);
    }
  // ---- malformed: rejected by the constructors
  {
    Cfg c;
    c.N = 16, c.R = 4, c.span = 9, c.max_delta = 3, c.views = 8, c.ntang = 7;
    cfgs.push_back(c); // span too large
    c.span = 1, c.max_delta = 5;
    cfgs.push_back(c); // max_delta too large
    c.max_delta = 3, c.ntang = 16;
    cfgs.push_back(c); // tangential range too large for the detector tables / scanner
    c.ntang = 7, c.tof_bins = 8, c.tof_mash = 2;
    cfgs.push_back(c); // even number of TOF bins
    c.tof_mash = 9;
    cfgs.push_back(c); // mashing factor larger than the number of TOF bins
  }
  // ---- blocks-on-cylindrical and generic scanners
  const int nblocks = thorough ? 36 : 12;
  for (int k = 0; k < nblocks; ++k)
    {
      Cfg c;
      c.geom = (k % 3 == 2) ? "generic" : "blocks";
      const int nbuckets = 2 * rng.range(2, 8);
      c.tr_blocks_per_bucket = rng.range(1, 2);
      c.tr_cryst_per_block = rng.range(1, 5);
      c.N = nbuckets * c.tr_blocks_per_bucket * c.tr_cryst_per_block;
      if (c.N % 2)
        continue;
      const int ax_buckets = 1; // (more than one axial bucket is rejected by Scanner::check_consistency)
      c.ax_blocks_per_bucket = rng.range(1, 3);
      c.ax_cryst_per_block = rng.range(1, 3);
      c.R = ax_buckets * c.ax_blocks_per_bucket * c.ax_cryst_per_block;
      c.radius = (float)(rng.range(400, 2400) / 8.0);
      c.doi = (float)(rng.range(0, 40) / 8.0);
      c.tr_cryst_spacing = (float)(rng.range(8, 32) / 8.0);
      c.ax_cryst_spacing = (float)(rng.range(8, 32) / 8.0);
      c.spacing = c.ax_cryst_spacing;
      // Scanner::check_consistency wants  2 R_inner tan(pi/(2 nbuckets)) <= bucket width ; physically  bucket width <= 2 R tan(pi/nbuckets)
      {
        const double side = 2 * c.radius * std::tan(PI / nbuckets);
        const double width = side * (0.6 + 0.3 * rng.unit());
        c.tr_cryst_spacing = (float)(std::floor(width / (c.tr_blocks_per_bucket * c.tr_cryst_per_block) * 16) / 16.0);
        if (c.tr_cryst_spacing <= 0)
          continue;
        c.tr_block_spacing = c.tr_cryst_spacing * c.tr_cryst_per_block + (rng.range(0, 1) ? 0.F : 0.0625F * rng.range(0, 4));
        if (c.tr_block_spacing * c.tr_blocks_per_bucket < 2 * c.radius * std::tan(PI / 2 / nbuckets) * 1.02)
          continue;
      }
      c.ax_block_spacing = c.ax_cryst_spacing * c.ax_cryst_per_block + (rng.range(0, 1) ? 0.F : (float)(rng.range(0, 8) / 8.0));
      c.tilt = rng.range(0, 1) ? 0.F : (float)(rng.range(-200, 200) / 1000.0);
      c.span = 1;
      c.max_delta = c.R - 1;
      if (k % 4 == 3 && c.R >= 2)
        { // axially compressed blocks data
          c.span = 3;
          c.max_delta = largest_complete_max_delta(3, c.R, rng, true);
        }
      if (k % 2 == 1)
        { // TOF blocks / generic data
          c.tof_bins = rng.range(1, 13);
          // (Scanner::check_consistency: the coincidence window = number of TOF bins x their size must be between half and twice the
          //  FOV diameter, and at least the timing resolution)
          double fovd = 2 * c.radius;
          {
            Cfg twin = c;
            twin.geom = "blocks";
            twin.tof_bins = -1;
            twin.tof_mash = 0;
            twin.R = c.R, twin.spacing = c.ax_cryst_spacing;
            try
              {
                fovd = 2 * make_scanner(twin)->get_max_FOV_radius() * (c.geom == "generic" ? 1.02 : 1.0);
              }
            catch (...)
              {
                continue;
              }
          }
          c.tofsize = (float)(std::floor((0.75 + 0.7 * rng.unit()) * fovd / 0.1499 / c.tof_bins * 8) / 8.0);
          std::vector<int> ok;
          for (int f = 1; f <= c.tof_bins; ++f)
            if ((c.tof_bins / f) % 2 == 1)
              ok.push_back(f);
          c.tof_mash = ok[rng.range(0, (int)ok.size() - 1)];
        }
      c.views = c.N / 2;
      c.ntang = c.N - 1;
      cfgs.push_back(c);
    }

  int ncfg = 0;
  for (auto& c0 : cfgs)
    {
      Cfg c = c0;
      try
        {
          shared_ptr<Scanner> scanner;
          if (c.geom == "generic" && c.name.empty())
            {
              // crystal map file written from the coordinates of the corresponding blocks scanner, radially perturbed
              Cfg cb = c;
              cb.geom = "blocks";
              shared_ptr<Scanner> sb = make_scanner(cb);
              c.mapfile = std::string(argv[4]) + ".crystalmap" + std::to_string(ncfg);
              FILE* mf = std::fopen(c.mapfile.c_str(), "w");
              for (int ax = 0; ax < cb.R; ++ax)
                for (int tg = 0; tg < cb.N; ++tg)
                  {
                    const CartesianCoordinate3D<float> x = sb->get_coordinate_for_det_pos(DetectionPosition<>(tg, ax, 0));
                    const double f = 1.0 + 0.03 * std::sin(3.0 * tg * 2 * PI / cb.N);
                    std::fprintf(mf, "%d,%d,%.4f,%.4f,%.4f\n", ax, tg, x.x() * f, x.y() * f, (double)x.z());
                  }
              std::fclose(mf);
            }
          ++ncfg;
          shared_ptr<ProjDataInfo> pdi = build(c, scanner);
          if (!pdi)
            continue;
          if (c.geom == "cyl")
            {
              run_tof(*pdi, rng);
              run_pdi(c, scanner, pdi, rng);
            }
          else
            {
              run_tof(*pdi, rng);
              run_generic(c, scanner, pdi, rng);
            }
          if (!c.mapfile.empty())
            std::remove(c.mapfile.c_str());
        }
      catch (std::exception& e)
        {
          ofail("exception", std::string("exception in configuration: ") + e.what());
        }
    }
  cur_cfg = "overlap_interpolate / ArcCorrection";
  try
    {
      run_overlap(rng, thorough ? 4000 : 800);
      run_arc(rng, thorough ? 300 : 60);
      run_arc_overloads(rng, thorough ? 120 : 12);
      run_arc_reuse(rng, thorough ? 90 : 18);
      run_pdi_reuse(rng, thorough ? 120 : 24);
      run_lor_conversions(rng, thorough ? 20000 : 1000);
    }
  catch (std::exception& e)
    {
      ofail("exception", std::string("exception in overlap/arc correction: ") + e.what());
    }
  std::fprintf(orc, "# bins=%ld rt_same=%ld rt_step=%ld rt_wrap=%ld rt_miss=%ld det_checked=%ld lor_representations=%ld detectors_found_again=%ld "
                    "arc_rows=%ld configs=%d\n",
               total.bins, total.rt_same, total.rt_step, total.rt_wrap, total.rt_miss, total.det_checked, total.reps, total.found,
               total.arc_rows, ncfg);
  for (auto& kv : fail_kinds)
    std::fprintf(orc, "# fail-kind %s %ld\n", kv.first.c_str(), kv.second);
  std::fprintf(orc, "ORACLE-DONE checks=%ld fails=%ld\n", oracle_checks, oracle_fails);
  std::fclose(ops);
  std::fclose(out);
  std::fclose(orc);
  return 0;
}
