// C12 — implementation side: bin coordinates, lines of response and detector positions.
// Drives the real ProjDataInfo* classes (cylindrical arc-corrected / not, blocks-on-cylindrical, generic),
// LORCoordinates conversions, DetectorCoordinateMap, the TOF bin table, overlap_interpolate and ArcCorrection.
// Usage: c12_coordinates <seed> <quick|thorough> <opsfile> <implfile>
//
// Line protocol (see lean/Driver/C12.lean for the model side):
//   cfg <geom> N R span maxdelta views ntang arc tofmash maxtof Reff spacing binsize tilt tofsize [block parameters]
//        -> segs <minseg> : lo,hi,n ... | tof <mint> <maxt> <nbins> | tang <min> <max> | mash <m>      (or err)
//   coord s v a tp t   -> get_s get_phi get_m get_t get_tantheta get_k sampling_in_s _m _t _k          (hex floats)
//   lor s v a tp t     -> z1 z2 phi beta swapped                                                      (get_LOR)
//   rt s v a tp t      -> bin returned by get_bin(get_LOR(bin), tof_delta_time(bin)) | miss | err
//   det s v a tp       -> n  <s> <dphi> <m> <tantheta>  averaged over the physical detector pairs of the bin
//   tofb t             -> low_mm high_mm low_ps high_ps k sampling_k
//   toft <delta>       -> get_tof_bin(delta)
//   dpos tang ax       -> x y z of Scanner::get_coordinate_for_det_pos (blocks)
//   blor x1 y1 z1 x2 y2 z2 -> s phi m tantheta of a generic-geometry bin with these detector coordinates (data)
//   ovl ...            -> overlap_interpolate on float rows
//   arc ...            -> ArcCorrection::do_arc_correction on one row
#include "stir_fixtures.h"
#include "common.h"
#include "stir/ArcCorrection.h"
#include "stir/Array.h"
#include "stir/Bin.h"
#include "stir/DetectionPositionPair.h"
#include "stir/LORCoordinates.h"
#include "stir/ProjDataInfoBlocksOnCylindricalNoArcCorr.h"
#include "stir/ProjDataInfoCylindricalArcCorr.h"
#include "stir/ProjDataInfoCylindricalNoArcCorr.h"
#include "stir/ProjDataInfoGenericNoArcCorr.h"
#include "stir/Sinogram.h"
#include "stir/Succeeded.h"
#include "stir/modulo.h"
#include "stir/round.h"
#include "stir/numerics/overlap_interpolate.h"
#include <algorithm>
#include <cmath>
#include <map>
#include <set>

using namespace stir;

static FILE *ops, *out, *orc;
static long oracle_checks = 0, oracle_fails = 0;
static std::map<std::string, long> fail_kinds;
static std::set<std::string> known_emitted;
static std::string cur_cfg;
static bool thorough = false;
static const double PI = 3.14159265358979323846;

static void
ofail(const std::string& kind, const std::string& text)
{
  ++oracle_fails;
  if (++fail_kinds[kind] <= 3)
    std::fprintf(orc, "ORACLE-FAIL %s: %s [%s]\n", kind.c_str(), text.c_str(), cur_cfg.c_str());
}
static void
known(const std::string& key, const std::string& text)
{
  ++oracle_fails;
  if (known_emitted.insert(key).second)
    std::fprintf(orc, "KNOWN-CANDIDATE %s %s (first seen: %s)\n", key.c_str(), text.c_str(), cur_cfg.c_str());
}
#define H(x) vh::hex(x).c_str()

static std::string
bstr(const Bin& b)
{
  char buf[128];
  std::snprintf(buf, sizeof buf, "%d %d %d %d %d", b.segment_num(), b.view_num(), b.axial_pos_num(), b.tangential_pos_num(),
                b.timing_pos_num());
  return buf;
}

// ---------------------------------------------------------------------------------------------
// geometry of the straight line through two points (STIR coordinates), in double.
// STIR's parametrisation: X = s cos(phi) + a sin(phi), Y = s sin(phi) - a cos(phi), Z = m - a tan(theta);
// the first point is the one with a > 0.
struct Line
{
  double phi, s, m, tantheta;
};
static Line
line_through(const CartesianCoordinate3D<float>& c1, const CartesianCoordinate3D<float>& c2)
{
  const double dx = double(c1.x()) - c2.x(), dy = double(c1.y()) - c2.y();
  const double L = std::sqrt(dx * dx + dy * dy);
  Line l;
  l.phi = std::atan2(dx, -dy);
  const double cp = std::cos(l.phi), sp = std::sin(l.phi);
  l.s = c1.x() * cp + c1.y() * sp;
  const double a1 = c1.x() * sp - c1.y() * cp;
  l.tantheta = (double(c2.z()) - c1.z()) / L;
  l.m = c1.z() + a1 * l.tantheta;
  return l;
}
// bring `l` to the representation whose phi is closest to `phi_ref` (phi -> phi + pi reverses the signs of s and tan(theta))
static Line
align(Line l, double phi_ref)
{
  const double k = std::floor((phi_ref - l.phi) / PI + 0.5);
  l.phi += k * PI;
  if (std::fmod(std::fabs(k), 2.0) == 1.0)
    {
      l.s = -l.s;
      l.tantheta = -l.tantheta;
    }
  return l;
}

// ---------------------------------------------------------------------------------------------
struct Cfg
{
  std::string geom = "cyl"; // cyl | blocks | generic
  std::string name;         // predefined scanner name (empty: generated)
  int N = 16, R = 4, span = 1, max_delta = 3, views = 8, ntang = 7, tof_mash = 0, tof_bins = -1;
  bool arc = false;
  float radius = 100.F, doi = 5.F, spacing = 4.F, binsize = 2.F, tilt = 0.F, tofsize = 100.F;
  // blocks
  int ax_blocks_per_bucket = 1, tr_blocks_per_bucket = 1, ax_cryst_per_block = 1, tr_cryst_per_block = 1;
  float ax_cryst_spacing = -1, tr_cryst_spacing = -1, ax_block_spacing = -1, tr_block_spacing = -1;
  std::string mapfile;
};

static shared_ptr<Scanner>
make_scanner(const Cfg& c)
{
  if (!c.name.empty())
    {
      shared_ptr<Scanner> s(Scanner::get_scanner_from_name(c.name));
      return s;
    }
  const std::string geometry = c.geom == "cyl" ? "Cylindrical" : (c.geom == "blocks" ? "BlocksOnCylindrical" : "Generic");
  shared_ptr<Scanner> s(new Scanner(Scanner::User_defined_scanner, std::string("verif_c12"), c.N, c.R,
                                    /*max_num_non_arccorrected_bins*/ std::max(1, c.N - 1),
                                    /*default_num_arccorrected_bins*/ std::max(1, c.N / 2 - 1), c.radius, c.doi, c.spacing, c.binsize,
                                    c.tilt, c.ax_blocks_per_bucket, c.tr_blocks_per_bucket, c.ax_cryst_per_block,
                                    c.tr_cryst_per_block, 1, 1, 1, 0.1F, 511.F, static_cast<short>(c.tof_bins),
                                    c.tof_bins > 0 ? c.tofsize : -1.F, c.tof_bins > 0 ? 400.F : -1.F, geometry, c.ax_cryst_spacing,
                                    c.tr_cryst_spacing, c.ax_block_spacing, c.tr_block_spacing, c.mapfile));
  return s;
}

// a selection of indices lo..hi containing the ends, the ends' neighbours, 0 and a seeded sample
static std::vector<int>
pick(int lo, int hi, int maxcount, vh::Rng& rng)
{
  std::set<int> s;
  if (hi - lo + 1 <= maxcount)
    for (int i = lo; i <= hi; ++i)
      s.insert(i);
  else
    {
      s.insert(lo);
      s.insert(hi);
      if (maxcount >= 4)
        {
          s.insert(lo + 1);
          s.insert(hi - 1);
        }
      if (lo <= 0 && hi >= 0)
        s.insert(0);
      if (lo <= 1 && hi >= 1 && maxcount >= 6)
        s.insert(1);
      int guard = 0;
      while ((int)s.size() < maxcount && ++guard < 10 * maxcount)
        s.insert(rng.range(lo, hi));
    }
  return std::vector<int>(s.begin(), s.end());
}

static bool
near(double a, double b, double tol)
{
  return std::fabs(a - b) <= tol;
}

// ---------------------------------------------------------------------------------------------
// TOF bin table (ProjDataInfo::set_tof_mash_factor, get_k, get_tof_bin)
static void
run_tof(const ProjDataInfo& p, vh::Rng& rng)
{
  if (!p.is_tof_data())
    return;
  const int mint = p.get_min_tof_pos_num(), maxt = p.get_max_tof_pos_num();
  std::vector<int> ts = pick(mint, maxt, thorough ? 41 : 9, rng);
  for (int t : ts)
    {
      Bin b(0, 0, 0, 0, t, 1.F);
      std::fprintf(ops, "tofb %d\n", t);
      std::fprintf(out, "%s %s %s %s %s %s\n", H(p.tof_bin_boundaries_mm[t].low_lim), H(p.tof_bin_boundaries_mm[t].high_lim),
                   H(p.tof_bin_boundaries_ps[t].low_lim), H(p.tof_bin_boundaries_ps[t].high_lim), H(p.get_k(b)),
                   H(p.get_sampling_in_k(b)));
    }
  // ORACLE: boundaries contiguous, increasing, symmetric; k antisymmetric and increasing; centre of a bin is found again
  for (int t = mint; t <= maxt; ++t)
    {
      const double lo = p.tof_bin_boundaries_mm[t].low_lim, hi = p.tof_bin_boundaries_mm[t].high_lim;
      const double k = p.get_k(Bin(0, 0, 0, 0, t, 1.F)), km = p.get_k(Bin(0, 0, 0, 0, -t, 1.F));
      const double w = p.get_sampling_in_k(Bin(0, 0, 0, 0, t, 1.F));
      const double tol = 1e-5 * (std::fabs(lo) + std::fabs(hi) + w);
      ++oracle_checks;
      if (!(w > 0) || !(lo < hi) || !near((lo + hi) / 2, k, tol) || !near(hi - lo, w, tol))
        ofail("tof-bin", "TOF bin " + std::to_string(t) + " is not [k-w/2,k+w/2] with w>0");
      if (t < maxt)
        {
          ++oracle_checks;
          const double lo1 = p.tof_bin_boundaries_mm[t + 1].low_lim;
          if (!near(hi, lo1, tol))
            ofail("tof-contiguous", "high(" + std::to_string(t) + ") != low(" + std::to_string(t + 1) + ")");
          if (!(p.get_k(Bin(0, 0, 0, 0, t + 1, 1.F)) > k))
            ofail("tof-monotone", "get_k not increasing at " + std::to_string(t));
        }
      ++oracle_checks;
      if (!near(km, -k, tol))
        ofail("tof-antisym", "get_k(-t) != -get_k(t) at t=" + std::to_string(t));
      if (-t >= mint && -t <= maxt)
        {
          ++oracle_checks;
          if (!near(p.tof_bin_boundaries_mm[-t].low_lim, -hi, tol) || !near(p.tof_bin_boundaries_mm[-t].high_lim, -lo, tol))
            ofail("tof-sym", "boundaries of -t are not the mirrored boundaries of t=" + std::to_string(t));
        }
      // ps boundaries are the mm boundaries converted with c/2
      ++oracle_checks;
      const double c2 = 0.299792458 * 0.5;
      if (!near(p.tof_bin_boundaries_ps[t].low_lim * c2, lo, tol) || !near(p.tof_bin_boundaries_ps[t].high_lim * c2, hi, tol))
        ofail("tof-ps", "ps boundaries are not the mm boundaries / (c/2) at t=" + std::to_string(t));
      // the centre, and points well inside, are found again
      ++oracle_checks;
      const double dt = p.get_tof_delta_time(Bin(0, 0, 0, 0, t, 1.F));
      if (p.get_tof_bin(dt) != t)
        ofail("tof-roundtrip", "get_tof_bin(get_tof_delta_time(t)) != t at t=" + std::to_string(t));
    }
  ++oracle_checks;
  if (mint != -maxt || p.get_num_tof_poss() != maxt - mint + 1 || p.get_num_tof_poss() % 2 != 1)
    ofail("tof-range", "TOF bin range is not symmetric/odd");
  // get_tof_bin on a seeded sample of time differences well inside bins
  const double wps = p.tof_bin_boundaries_ps[0].high_lim - p.tof_bin_boundaries_ps[0].low_lim;
  for (int k = 0; k < (thorough ? 40 : 8); ++k)
    {
      const int t = rng.range(mint, maxt);
      const double f = (rng.range(1, 9)) / 10.0; // position inside the bin
      const double delta = p.tof_bin_boundaries_ps[t].low_lim + f * wps;
      std::fprintf(ops, "toft %s\n", H(delta));
      std::fprintf(out, "%d\n", p.get_tof_bin(delta));
      ++oracle_checks;
      if (p.get_tof_bin(delta) != t)
        ofail("tof-lookup", "a time difference inside TOF bin " + std::to_string(t) + " is assigned to another bin");
    }
}

// ---------------------------------------------------------------------------------------------
// coordinates, LOR round trip and detector agreement for one projection-data geometry
struct Stats
{
  long bins = 0, rt_same = 0, rt_step = 0, rt_wrap = 0, rt_miss = 0, det_checked = 0;
};
static Stats total;

static void
run_pdi(const Cfg& c, const shared_ptr<Scanner>& scanner, const shared_ptr<ProjDataInfo>& pdi0, vh::Rng& rng)
{
  const ProjDataInfo& p = *pdi0;
  const ProjDataInfoCylindrical* pc = dynamic_cast<const ProjDataInfoCylindrical*>(&p);
  const ProjDataInfoCylindricalNoArcCorr* pn = dynamic_cast<const ProjDataInfoCylindricalNoArcCorr*>(&p);
  const ProjDataInfoCylindricalArcCorr* pa = dynamic_cast<const ProjDataInfoCylindricalArcCorr*>(&p);
  const ProjDataInfoGenericNoArcCorr* pg = dynamic_cast<const ProjDataInfoGenericNoArcCorr*>(&p);
  const int N = scanner->get_num_detectors_per_ring(), R = scanner->get_num_rings();
  const int V = p.get_num_views();
  const double Reff = scanner->get_effective_ring_radius();
  const double spacing = scanner->get_ring_spacing();
  const int mash = pg ? 1 : pc->get_view_mashing_factor();
  const double half_view = PI / N; // half an (unmashed) view step
  const double axial_len = spacing * std::max(1, R);
  const int mintp = p.get_min_tangential_pos_num(), maxtp = p.get_max_tangential_pos_num();
  const int mint = p.get_min_tof_pos_num(), maxt = p.get_max_tof_pos_num();

  // ---- selection of bins
  const bool small = (long)p.get_num_sinograms() * V * p.get_num_tangential_poss() <= (thorough ? 400000 : 60000);
  std::vector<int> segs = pick(p.get_min_segment_num(), p.get_max_segment_num(), small ? 1000000 : (thorough ? 11 : 7), rng);
  std::vector<int> views = pick(0, V - 1, small ? 1000000 : (thorough ? 28 : 10), rng);
  std::vector<int> tps = pick(mintp, maxtp, small ? 1000000 : (thorough ? 56 : 20), rng);
  std::vector<int> tofs = pick(mint, maxt, small ? 1000000 : (thorough ? 5 : 3), rng);
  std::vector<Bin> bins;
  for (int s : segs)
    {
      std::vector<int> axs = pick(p.get_min_axial_pos_num(s), p.get_max_axial_pos_num(s), small ? 1000000 : (thorough ? 14 : 8), rng);
      for (int a : axs)
        for (int v : views)
          for (int tp : tps)
            for (int t : tofs)
              bins.push_back(Bin(s, v, a, tp, t, 1.F));
    }
  // bins that also go to the model (operation lines)
  const int nops = thorough ? 160 : 64;
  std::set<std::size_t> op_idx;
  if (bins.size() <= (std::size_t)nops)
    for (std::size_t i = 0; i < bins.size(); ++i)
      op_idx.insert(i);
  else
    while (op_idx.size() < (std::size_t)nops)
      op_idx.insert(rng.next() % bins.size());

  // z of the axial centre of the detector stack in the coordinates of find_cartesian_coordinates_given_scanner_coordinates
  double z_centre = 0;
  if (pn || pg)
    {
      CartesianCoordinate3D<float> a1, a2;
      if (pn)
        pn->find_cartesian_coordinates_given_scanner_coordinates(a1, a2, 0, R - 1, 0, N / 2, 0);
      else
        pg->find_cartesian_coordinates_given_scanner_coordinates(a1, a2, 0, R - 1, 0, N / 2);
      z_centre = (double(a1.z()) + a2.z()) / 2;
    }

  std::size_t idx = 0;
  for (const Bin& b : bins)
    {
      const bool to_model = op_idx.count(idx++) != 0;
      ++total.bins;
      const int sg = b.segment_num(), v = b.view_num(), a = b.axial_pos_num(), tp = b.tangential_pos_num(), t = b.timing_pos_num();
      const double s = p.get_s(b), phi = p.get_phi(b), m = p.get_m(b), tt = p.get_tantheta(b), k = p.get_k(b);
      if (pa && !(std::fabs(s) < 0.995 * Reff))
        continue; // arc-corrected bins outside the detector ring have no line of response
      if (pc->get_min_ring_difference(sg) == pc->get_max_ring_difference(sg)
          && p.get_num_axial_poss(sg) != R - std::abs(pc->get_min_ring_difference(sg)))
        continue; // a compressed segment clipped to one ring difference: its axial bookkeeping is the subject (and known finding) of C01
      if (sg == 0 && pc && pc->get_min_ring_difference(0) != -pc->get_max_ring_difference(0))
        {
          // (was: even span with max_delta = span/2-1 clipped segment 0 to [-span/2, span/2-1]; such a configuration is now rejected)
          ++oracle_checks;
          ofail("segment0-asymmetric", "segment 0 is its own opposite segment but its ring differences are not symmetric about 0");
          continue;
        }
      if (to_model && !pg)
        {
          std::fprintf(ops, "coord %s\n", bstr(b).c_str());
          std::fprintf(out, "%s %s %s %s %s %s %s %s %s %s\n", H(s), H(phi), H(m), H(p.get_t(b)), H(tt), H(k),
                       H(p.get_sampling_in_s(b)), H(p.get_sampling_in_m(b)), H(p.get_sampling_in_t(b)), H(p.get_sampling_in_k(b)));
        }
      // ---- ORACLE: antisymmetry / monotonicity in the indices
      {
        ++oracle_checks;
        const Bin bneg(sg, v, a, -tp, t, 1.F), bnext(sg, v, a, tp + 1, t, 1.F);
        if (!pg)
          {
            if (!near(p.get_s(bneg), -s, 1e-5 * Reff))
              ofail("s-antisym", "get_s(-tp) != -get_s(tp) at bin " + bstr(b));
            if (tp < maxtp && !(p.get_s(bnext) > s))
              ofail("s-monotone", "get_s not increasing in the tangential position at bin " + bstr(b));
            if (tp == 0 && !near(s, 0, 1e-6 * Reff))
              ofail("s-zero", "get_s(tp=0) != 0");
          }
        if (-sg >= p.get_min_segment_num() && -sg <= p.get_max_segment_num() && a <= p.get_max_axial_pos_num(-sg))
          {
            ++oracle_checks;
            const Bin bos(-sg, v, a, tp, t, 1.F);
            const double tto = p.get_tantheta(bos);
            if (!near(tto, -tt, 1e-5 * (1 + std::fabs(tt))))
              ofail("tantheta-antisym", "opposite segments do not have opposite tan(theta) at bin " + bstr(b));
            if (sg > 0 && pc && !pg && !(tt > 0))
              ofail("tantheta-sign", "positive segment with non-positive tan(theta) at bin " + bstr(b));
            if (sg == 0 && pc && !pg && tt != 0)
              ofail("tantheta-zero", "segment 0 with non-zero tan(theta) at bin " + bstr(b));

            if (!near(p.get_m(bos), m, 1e-5 * axial_len))
              ofail("m-segment-sym", "opposite segments give different m at bin " + bstr(b));
          }
        if (!pg)
          {
            // m antisymmetric about the scanner centre, increasing with the axial position
            ++oracle_checks;
            const int amir = p.get_max_axial_pos_num(sg) + p.get_min_axial_pos_num(sg) - a;
            if (!near(p.get_m(Bin(sg, v, amir, tp, t, 1.F)), -m, 1e-5 * axial_len))
              ofail("m-antisym", "get_m is not antisymmetric about the scanner centre at bin " + bstr(b));
            if (!(p.get_m(Bin(sg, v, a + 1, tp, t, 1.F)) > m))
              ofail("m-monotone", "get_m not increasing in the axial position at bin " + bstr(b));
            if (!(p.get_phi(Bin(sg, v + 1, a, tp, t, 1.F)) > phi))
              ofail("phi-monotone", "get_phi not increasing in the view at bin " + bstr(b));
            // sampling = distance between neighbours
            if (!near(p.get_sampling_in_m(b), p.get_m(Bin(sg, v, a + 1, tp, t, 1.F)) - m, 1e-5 * axial_len))
              ofail("m-sampling", "get_sampling_in_m is not the axial distance between neighbouring bins at " + bstr(b));
          }
        if (p.is_tof_data())
          {
            ++oracle_checks;
            if (!near(p.get_k(Bin(sg, v, a, tp, -t, 1.F)), -k, 1e-5 * (1 + std::fabs(k))))
              ofail("k-antisym", "opposite TOF bins do not have opposite distances at bin " + bstr(b));
          }
        else if (k != 0)
          ofail("k-nontof", "non-TOF data with non-zero get_k");
        if (pa)
          {
            // uniform tangential sampling
            ++oracle_checks;
            const double d = p.get_s(bnext) - s;
            const double tol = 1e-6 * (std::fabs(s) + std::fabs(d));
            if (!near(d, pa->get_tangential_sampling(), tol) || !near(p.get_sampling_in_s(b), d, tol)
                || !near(s, tp * double(pa->get_tangential_sampling()), tol))
              ofail("arc-uniform", "arc-corrected data without uniform tangential sampling at bin " + bstr(b));
          }
      }

      // ---- the bin's line of response, and back
      LORInAxialAndNoArcCorrSinogramCoordinates<float> lor;
      p.get_LOR(lor, b);
      if (to_model && !pg)
        {
          std::fprintf(ops, "lor %s\n", bstr(b).c_str());
          std::fprintf(out, "%s %s %s %s %d\n", H(lor.z1()), H(lor.z2()), H(lor.phi()), H(lor.beta()), lor.is_swapped() ? 1 : 0);
        }
      // ORACLE: the LOR is the line (s, phi, m, tan(theta)) of the bin
      {
        ++oracle_checks;
        LORAs2Points<float> pts(lor);
        Line l = align(line_through(pts.p1(), pts.p2()), phi);
        if (lor.is_swapped())
          { // direction reversed: first point has a < 0; same line
          }
        const double rl = lor.radius();
        if (!near(l.s, s, 2e-5 * rl) || !near(l.phi, phi, 2e-5) || !near(l.m, m, 2e-5 * (axial_len + std::fabs(m)))
            || !near(l.tantheta, tt, 2e-5 * (1 + std::fabs(tt)) * (rl * rl) / std::max(1e-9, rl * rl - s * s)))
          ofail("lor-line", "get_LOR is not the line (get_s,get_phi,get_m,get_tantheta) of bin " + bstr(b));
      }
      // round trip
      {
        Bin nb;
        bool err = false;
        const double dtime = p.get_tof_delta_time(b);
        try
          {
            if (pg)
              { // generic geometries only accept a pair of points
                LORAs2Points<float> pts;
                lor.get_intersections_with_cylinder(pts, lor.radius());
                nb = p.get_bin(pts, dtime);
              }
            else
              nb = p.get_bin(lor, dtime);
          }
        catch (...)
          {
            err = true;
          }
        const bool miss = !err && nb.get_bin_value() <= 0;
        if (to_model && !pg)
          {
            std::fprintf(ops, "rt %s\n", bstr(b).c_str());
            std::fprintf(out, "%s\n", err ? "err" : (miss ? "miss" : bstr(nb).c_str()));
          }
        ++oracle_checks;
        if (err)
          ofail("roundtrip-exception", "get_bin(get_LOR(bin)) throws for bin " + bstr(b));
        else if (pa)
          {
            // (all TOF bins: get_bin is given get_tof_delta_time(bin))
            if (miss || !(nb == b))
              ofail("roundtrip-arccorr", "arc-corrected round trip does not return the same bin for " + bstr(b) + " -> "
                                             + (miss ? std::string("miss") : bstr(nb)));
            else
              ++total.rt_same;
          }
        else if (pn)
          {
            if (miss)
              {
                ++total.rt_miss;
                const int lo = pc->get_min_ring_difference(sg), hi = pc->get_max_ring_difference(sg);
                const double avg = pc->get_average_ring_difference(sg);
                const int margin = (int)std::max(std::ceil(avg - lo), std::ceil(hi - avg));
                const bool axial_edge
                    = lo != hi && (a < p.get_min_axial_pos_num(sg) + margin || a > p.get_max_axial_pos_num(sg) - margin);
                if (!axial_edge)
                  {
                    if (tp == mintp || tp == maxtp)
                      known("roundtrip:miss-at-tangential-edge",
                            "get_bin(get_LOR(bin)) reports a miss for a bin at the first/last tangential position that is not at the "
                            "axial edge of a compressed segment: rounding to the nearest detectors moves the bin one tangential step "
                            "outwards, out of the tangential range of the data (at |tp| = N/2-1: onto one and the same detector)");
                    else
                      ofail("roundtrip-miss", "get_bin(get_LOR(bin)) misses although the bin is not at an edge: " + bstr(b));
                  }
              }
            else
              {
                const int dv = std::abs(nb.view_num() - v);
                // stepping between the last and the first view reverses the signs (with two views both readings are possible)
                bool wrap = dv > V - dv;
                const int dview = std::min(dv, V - dv);
                if (dv == V - dv && nb.segment_num() == -sg && nb.segment_num() != sg)
                  wrap = true;
                if (dv == V - dv && sg == 0 && std::abs(nb.tangential_pos_num() + tp) < std::abs(nb.tangential_pos_num() - tp))
                  wrap = true;
                const int dseg = wrap ? nb.segment_num() + sg : nb.segment_num() - sg;
                const int dtp = wrap ? nb.tangential_pos_num() + tp : nb.tangential_pos_num() - tp;
                const int dtof = wrap ? nb.timing_pos_num() + t : nb.timing_pos_num() - t;
                const int dax = nb.axial_pos_num() - a;
                if (dseg != 0 || dtof != 0 || dview > 1 || std::abs(dtp) > 1 || std::abs(dax) > 1
                    || (V > 2 && wrap && dview == 0))
                  ofail("roundtrip-step", "get_bin(get_LOR(bin)) is more than one step away: " + bstr(b) + " -> " + bstr(nb));
                else if (nb == b)
                  ++total.rt_same;
                else if (wrap)
                  ++total.rt_wrap;
                else
                  ++total.rt_step;
                // even tangential position, no mashing, no axial compression: exact
                if (tp % 2 == 0 && mash == 1 && pc->get_min_ring_difference(sg) == pc->get_max_ring_difference(sg)
                    && !(nb == b))
                  ofail("roundtrip-even", "round trip of an uncompressed bin with even tangential position is not exact: " + bstr(b)
                                              + " -> " + bstr(nb));
              }
          }
      }

      // ---- ORACLE: the physical detector positions of the bin
      if (pn && t == 0)
        {
          std::vector<DetectionPositionPair<>> dps;
          pn->get_all_det_pos_pairs_for_bin(dps, b, true);
          if (dps.empty())
            continue; // no contributing ring pair (axial bookkeeping is C01's subject)
          double as = 0, adphi = 0, am = 0, att = 0, ard = 0;
          bool same_s = true;
          std::set<int> rds;
          for (const auto& dp : dps)
            {
              CartesianCoordinate3D<float> c1, c2;
              pn->find_cartesian_coordinates_given_scanner_coordinates(c1, c2, dp.pos1().axial_coord(), dp.pos2().axial_coord(),
                                                                       dp.pos1().tangential_coord(), dp.pos2().tangential_coord(), 0);
              Line l = align(line_through(c1, c2), phi);
              as += l.s;
              adphi += l.phi - phi;
              am += l.m - z_centre;
              att += l.tantheta;
              const int rd = (int)dp.pos2().axial_coord() - (int)dp.pos1().axial_coord();
              ard += rd;
              rds.insert(rd);
              if (!near(l.s, s, 1e-4 * Reff))
                same_s = false;
            }
          const double n = dps.size();
          as /= n, adphi /= n, am /= n, att /= n, ard /= n;
          if (to_model)
            {
              std::fprintf(ops, "det %d %d %d %d\n", sg, v, a, tp);
              std::fprintf(out, "%d %s %s %s %s\n", (int)dps.size(), H(as), H(adphi), H(am), H(att));
            }
          ++oracle_checks;
          ++total.det_checked;
          const int lo = pc->get_min_ring_difference(sg), hi = pc->get_max_ring_difference(sg);
          const double chord = 2 * std::sqrt(std::max(1e-12, Reff * Reff - s * s));
          // number of ring differences of the right parity in [lo,hi]: is the list complete (not cut at the axial edge)?
          int expect = 0;
          for (int rd = lo; rd <= hi; ++rd)
            if (((rd - *rds.begin()) % 2) == 0)
              ++expect;
          const bool complete = (int)rds.size() == expect;
          const double nominal = pc->get_average_ring_difference(sg);
          if (!same_s || !near(as, s, 1e-4 * Reff))
            ofail("det-s", "tangential offset of the detector chord differs from get_s at bin " + bstr(b));
          if (!near(am, m, 1e-4 * axial_len))
            ofail("det-m", "axial midpoint of the detector pairs differs from get_m at bin " + bstr(b));
          const double tt_tol = 1e-4 * (1 + std::fabs(att)) * (Reff * Reff) / (Reff * Reff - s * s);
          // (a) the line through the detectors has the obliqueness of the averaged ring difference; (b) get_tantheta is the NOMINAL one
          if (!near(att, ard * spacing / chord, tt_tol) || !near(tt, nominal * spacing / chord, tt_tol))
            ofail("det-tantheta", "obliqueness of the detector pairs / get_tantheta is not ring_difference*spacing/chord at bin " + bstr(b));
          else if (std::fabs(ard - nominal) > 1e-6)
            {
              // get_tantheta (nominal middle of the segment's ring differences) differs from the average over the contributing pairs
              const bool near_axial_end = a - p.get_min_axial_pos_num(sg) < hi - lo || p.get_max_axial_pos_num(sg) - a < hi - lo;
              if (!complete && near_axial_end && std::fabs(ard - nominal) <= (hi - lo) / 2.0 + 1e-6)
                known("obliqueness:ring-pair-list-cut-at-axial-edge",
                      "for an axially compressed oblique segment the ring pairs contributing to the first/last axial positions are only part of "
                      "the segment's ring differences (the others fall outside the scanner), so their average obliqueness differs from "
                      "get_tantheta, which always uses the middle (min+max)/2 of the segment");
              else if (complete && ((hi - lo) % 2) != 0 && near(std::fabs(ard - nominal), 0.5, 1e-6))
                known("obliqueness:even-number-of-ring-differences-per-segment",
                      "a segment with an even number of ring differences (even span) alternates between the even and the odd ones from one axial "
                      "position to the next; their average differs by half a ring difference from get_tantheta, which uses (min+max)/2");
              else
                ofail("det-tantheta-average", "average obliqueness of the contributing detector pairs differs from get_tantheta at bin " + bstr(b));
            }
          if (tp % 2 == 0 ? !near(adphi, 0, 1e-4) : !(std::fabs(adphi) <= half_view + 1e-4))
            ofail("det-phi", "azimuthal angle of the detector chord differs from get_phi at bin " + bstr(b));
          // uncompressed bins: find_cartesian_coordinates_of_detection gives the same line
          if (mash == 1 && lo == hi)
            {
              ++oracle_checks;
              CartesianCoordinate3D<float> c1, c2;
              pn->find_cartesian_coordinates_of_detection(c1, c2, b);
              Line l = align(line_through(c1, c2), phi);
              if (!near(l.s, s, 1e-4 * Reff) || !near(l.m - z_centre, m, 1e-4 * axial_len)
                  || !near(l.tantheta, tt, 1e-4 * (1 + std::fabs(tt)) * (Reff * Reff) / (Reff * Reff - s * s))
                  || !(std::fabs(l.phi - phi) <= (tp % 2 == 0 ? 1e-4 : half_view + 1e-4)))
                ofail("det-uncompressed", "find_cartesian_coordinates_of_detection is not on the line of bin " + bstr(b));
              // and the detectors are found again from the coordinates
              Bin fb;
              pn->find_bin_given_cartesian_coordinates_of_detection(fb, c1, c2);
              // (coordinates are relative to the first ring here; only the transaxial part is compared)
            }
        }
    }
}

// ---------------------------------------------------------------------------------------------
static void
write_cfg_line(const Cfg& c, const Scanner& sc)
{
  char buf[1024];
  std::snprintf(buf, sizeof buf, "cfg %s %d %d %d %d %d %d %d %d %d %s %s %s %s %s %d %d %d %d %s %s %s %s %d", c.geom.c_str(),
                sc.get_num_detectors_per_ring(), sc.get_num_rings(), c.span, c.max_delta, c.views, c.ntang, c.arc ? 1 : 0, c.tof_mash,
                sc.is_tof_ready() ? sc.get_max_num_timing_poss() : 0, H(sc.get_effective_ring_radius()), H(sc.get_ring_spacing()),
                H(sc.get_default_bin_size()), H(sc.get_intrinsic_azimuthal_tilt()), H(sc.is_tof_ready() ? sc.get_size_of_timing_pos() : 0.F),
                sc.get_num_axial_blocks_per_bucket(), sc.get_num_transaxial_blocks_per_bucket(), sc.get_num_axial_crystals_per_block(),
                sc.get_num_transaxial_crystals_per_block(), H(sc.get_axial_crystal_spacing()), H(sc.get_transaxial_crystal_spacing()),
                H(sc.get_axial_block_spacing()), H(sc.get_transaxial_block_spacing()), sc.get_max_num_non_arccorrected_bins());
  cur_cfg = buf;
  if (!c.name.empty())
    cur_cfg += " (" + c.name + ")";
  std::fprintf(ops, "%s\n", buf);
}

static shared_ptr<ProjDataInfo>
build(const Cfg& c, shared_ptr<Scanner>& scanner)
{
  cur_cfg = "constructing scanner " + c.geom + " " + c.name + " N=" + std::to_string(c.N) + " R=" + std::to_string(c.R);
  scanner = make_scanner(c);
  if (!scanner || scanner->get_type() == Scanner::Unknown_scanner)
    return shared_ptr<ProjDataInfo>();
  write_cfg_line(c, *scanner);
  shared_ptr<ProjDataInfo> pdi;
  try
    {
      pdi = vh::make_pdi(scanner, c.span, c.max_delta, c.views, c.ntang, c.arc, c.tof_mash);
      // force the lazily built tables, so that range errors show up here
      if (auto pn = dynamic_cast<const ProjDataInfoCylindricalNoArcCorr*>(pdi.get()))
        {
          int d1, d2;
          if (pn->get_view_mashing_factor() == 1)
            pn->get_det_num_pair_for_view_tangential_pos_num(d1, d2, 0, 0);
          std::vector<DetectionPositionPair<>> dps;
          pn->get_all_det_pos_pairs_for_bin(dps, Bin(0, 0, 0, 0), true);
        }
      if (auto pg = dynamic_cast<const ProjDataInfoGenericNoArcCorr*>(pdi.get()))
        {
          int d1, d2;
          pg->get_det_num_pair_for_view_tangential_pos_num(d1, d2, 0, 0);
        }
    }
  catch (...)
    {
      std::fprintf(out, "err\n");
      return shared_ptr<ProjDataInfo>();
    }
  const ProjDataInfoCylindrical* pc = dynamic_cast<const ProjDataInfoCylindrical*>(pdi.get());
  std::ostringstream s;
  s << "segs " << pdi->get_min_segment_num() << " :";
  for (int sg = pdi->get_min_segment_num(); sg <= pdi->get_max_segment_num(); ++sg)
    s << " " << pc->get_min_ring_difference(sg) << "," << pc->get_max_ring_difference(sg) << "," << pdi->get_num_axial_poss(sg);
  s << " | tof " << pdi->get_min_tof_pos_num() << " " << pdi->get_max_tof_pos_num() << " " << pdi->get_num_tof_poss();
  s << " | tang " << pdi->get_min_tangential_pos_num() << " " << pdi->get_max_tangential_pos_num();
  s << " | mash " << scanner->get_num_detectors_per_ring() / 2 / pdi->get_num_views();
  std::fprintf(out, "%s\n", s.str().c_str());
  return pdi;
}

// ---------------------------------------------------------------------------------------------
// blocks / generic geometries: detector coordinate map and bin coordinates from detector positions
static void
run_generic(const Cfg& c, const shared_ptr<Scanner>& scanner, const shared_ptr<ProjDataInfo>& pdi0, vh::Rng& rng)
{
  const ProjDataInfoGenericNoArcCorr* pg = dynamic_cast<const ProjDataInfoGenericNoArcCorr*>(pdi0.get());
  if (!pg)
    {
      ofail("generic-type", "construct_proj_data_info did not return a generic-geometry object");
      return;
    }
  const int N = scanner->get_num_detectors_per_ring(), R = scanner->get_num_rings();
  const double Reff = scanner->get_effective_ring_radius();
  const double spacing = scanner->get_ring_spacing();
  // ---- detector map
  const int nd = thorough ? 400 : 60;
  double prev_psi = -1;
  for (int k = 0; k < nd; ++k)
    {
      const int tang = k < N ? (nd >= N ? k : rng.range(0, N - 1)) : rng.range(0, N - 1);
      const int ax = rng.range(0, R - 1);
      const DetectionPosition<> dp(tang, ax, 0);
      const CartesianCoordinate3D<float> x = scanner->get_coordinate_for_det_pos(dp);
      if (c.geom == "blocks")
        {
          std::fprintf(ops, "dpos %d %d\n", tang, ax);
          std::fprintf(out, "%s %s %s\n", H(x.x()), H(x.y()), H(x.z()));
        }
      // ORACLE: coordinates -> detection position is the inverse, also for coordinates off by less than the rounding
      ++oracle_checks;
      DetectionPosition<> back;
      CartesianCoordinate3D<float> y = x;
      y.x() += 0.0003F * (rng.range(0, 2) - 1);
      y.y() += 0.0003F * (rng.range(0, 2) - 1);
      y.z() += 0.0003F * (rng.range(0, 2) - 1);
      if (scanner->find_detection_position_given_cartesian_coordinate(back, y) != Succeeded::yes || !(back == dp))
        ofail("detmap-roundtrip", "find_detection_position_given_cartesian_coordinate is not the inverse of get_coordinate_for_det_pos");
      // detectors are outside the effective radius of the inscribed circle (blocks), at the right height
      ++oracle_checks;
      const double r = std::sqrt(double(x.x()) * x.x() + double(x.y()) * x.y());
      if (c.geom == "blocks" && !(r >= Reff - 1e-2))
        ofail("detmap-radius", "block detector inside the effective ring radius");
    }
  {
    // ORACLE: tangential index increases counter-clockwise starting near psi=0 (x=0,y=-R), rings increase with z, stack centred
    double last = -1e9;
    int wraps = 0;
    for (int tang = 0; tang < N; ++tang)
      {
        const CartesianCoordinate3D<float> x = scanner->get_coordinate_for_det_pos(DetectionPosition<>(tang, 0, 0));
        double psi = std::atan2(double(x.x()), -double(x.y()));
        if (psi < last)
          {
            psi += 2 * PI;
            if (psi < last)
              ++wraps;
          }
        last = psi;
      }
    ++oracle_checks;
    if (wraps != 0 || last > 2 * PI + PI / 2)
      ofail("detmap-order", "tangential detector index is not increasing counter-clockwise");
    const double z0 = scanner->get_coordinate_for_det_pos(DetectionPosition<>(0, 0, 0)).z();
    const double z1 = scanner->get_coordinate_for_det_pos(DetectionPosition<>(0, R - 1, 0)).z();
    ++oracle_checks;
    if (!near(z0 + z1, 0, 1e-2) || (R > 1 && !(z1 > z0)))
      ofail("detmap-axial", "detector stack is not centred / increasing in z");
  }
  // ---- bins
  const ProjDataInfo& p = *pdi0;
  const int V = p.get_num_views();
  std::vector<int> segs = pick(p.get_min_segment_num(), p.get_max_segment_num(), thorough ? 7 : 5, rng);
  std::vector<int> views = pick(0, V - 1, thorough ? 24 : 10, rng);
  std::vector<int> tps = pick(p.get_min_tangential_pos_num(), p.get_max_tangential_pos_num(), thorough ? 60 : 18, rng);
  int emitted = 0;
  long nbins = 0, exact = 0, missed = 0;
  const double zc = 0; // detector coordinates from the scanner are centred
  for (int sg : segs)
    for (int a : pick(p.get_min_axial_pos_num(sg), p.get_max_axial_pos_num(sg), thorough ? 8 : 4, rng))
      for (int v : views)
        for (int tp : tps)
          {
            const Bin b(sg, v, a, tp, 0, 1.F);
            ++nbins;
            ++total.bins;
            int d1, d2, r1, r2;
            pg->get_det_pair_for_bin(d1, r1, d2, r2, b);
            {
              const int per_bucket = scanner->get_num_transaxial_crystals_per_block() * scanner->get_num_transaxial_blocks_per_bucket();
              if (per_bucket > 0 && d1 / per_bucket == d2 / per_bucket)
                continue; // both detectors on the same flat bucket: a degenerate line along the face of the bucket
            }
            const CartesianCoordinate3D<float> x1 = scanner->get_coordinate_for_det_pos(DetectionPosition<>(d1, r1, 0));
            const CartesianCoordinate3D<float> x2 = scanner->get_coordinate_for_det_pos(DetectionPosition<>(d2, r2, 0));
            const double s = p.get_s(b), phi = p.get_phi(b), m = p.get_m(b), tt = p.get_tantheta(b);
            if (emitted < (thorough ? 300 : 60) && rng.range(0, 3) == 0)
              {
                ++emitted;
                std::fprintf(ops, "blor %s %s %s %s %s %s\n", H(x1.x()), H(x1.y()), H(x1.z()), H(x2.x()), H(x2.y()), H(x2.z()));
                std::fprintf(out, "%s %s %s %s\n", H(s), H(phi), H(m), H(tt));
              }
            // ORACLE: find_cartesian_coordinates_of_detection = the detectors' positions (relative to the first ring)
            ++oracle_checks;
            CartesianCoordinate3D<float> c1, c2;
            pg->find_cartesian_coordinates_of_detection(c1, c2, b);
            const double zs = scanner->get_coordinate_for_det_pos(DetectionPosition<>(0, 0, 0)).z();
            if (!near(c1.x(), x1.x(), 1e-3) || !near(c1.y(), x1.y(), 1e-3) || !near(c1.z() + zs, x1.z(), 1e-3) || !near(c2.x(), x2.x(), 1e-3)
                || !near(c2.y(), x2.y(), 1e-3) || !near(c2.z() + zs, x2.z(), 1e-3))
              ofail("generic-detection", "find_cartesian_coordinates_of_detection differs from the detector map at bin " + bstr(b));
            // ORACLE: bin coordinates = line through the two detectors
            ++oracle_checks;
            const Line l = align(line_through(x1, x2), phi);
            const double rr = std::max(std::hypot(double(x1.x()), double(x1.y())), std::hypot(double(x2.x()), double(x2.y())));
            const double ax_len = spacing * R;
            if (!near(l.s, s, 2e-4 * rr))
              ofail("generic-s", "get_s differs from the offset of the line through the detectors at bin " + bstr(b));
            if (!near(l.phi, phi, 2e-4))
              ofail("generic-phi", "get_phi differs from the direction of the line through the detectors at bin " + bstr(b));
            if (!near(l.m - zc, m, 2e-4 * ax_len))
              ofail("generic-m", "get_m differs from the axial midpoint of the line through the detectors at bin " + bstr(b));
            if (!near(l.tantheta, tt, 2e-4 * (1 + std::fabs(tt)) * rr * rr / std::max(1e-9, rr * rr - s * s)))
              ofail("generic-tantheta", "get_tantheta differs from the obliqueness of the line through the detectors at bin " + bstr(b));
            // ORACLE: antisymmetry between opposite segments
            if (a <= p.get_max_axial_pos_num(-sg))
              {
                ++oracle_checks;
                const Bin bo(-sg, v, a, tp, 0, 1.F);
                if (!near(p.get_tantheta(bo), -tt, 1e-4 * (1 + std::fabs(tt))) || !near(p.get_s(bo), s, 1e-4 * rr)
                    || !near(p.get_phi(bo), phi, 1e-4))
                  ofail("generic-antisym", "opposite segments do not have opposite obliqueness (same s, phi) at bin " + bstr(b));
              }
            // ORACLE round trip 1: the physical LOR (pair of detector positions) is converted back to the same bin
            {
              ++oracle_checks;
              LORAs2Points<float> phys(x1, x2);
              Bin nb;
              bool err = false;
              try
                {
                  nb = p.get_bin(phys, 0.);
                }
              catch (...)
                {
                  err = true;
                }
              if (err || nb.get_bin_value() <= 0 || !(nb == b))
                ofail("generic-physical-roundtrip", "get_bin of the pair of detector positions of bin " + bstr(b) + " is not that bin");
            }
            // ORACLE round trip 2 (the property's statement): the LOR reported by get_LOR
            {
              ++oracle_checks;
              LORInAxialAndNoArcCorrSinogramCoordinates<float> lor;
              p.get_LOR(lor, b);
              LORAs2Points<float> pts;
              lor.get_intersections_with_cylinder(pts, lor.radius());
              Bin nb;
              bool err = false;
              try
                {
                  nb = p.get_bin(pts, 0.);
                }
              catch (...)
                {
                  err = true;
                }
              if (err)
                ofail("generic-roundtrip-exception", "get_bin(get_LOR(bin)) throws at bin " + bstr(b));
              else if (nb.get_bin_value() <= 0)
                {
                  ++missed;
                  known("generic:get_bin-needs-exact-crystal-coordinates",
                        "ProjDataInfoGenericNoArcCorr::get_bin only looks the two end points up in the crystal map (rounded to 0.001/0.01/0.1 mm) "
                        "instead of finding the nearest detectors: the LOR reported by get_LOR (end points on the cylinder through the outer "
                        "crystal) is reported as a miss for most bins of a blocks-on-cylindrical or generic scanner, none of which is axially compressed");
                }
              else if (nb == b)
                ++exact;
              else
                {
                  const int dv = std::abs(nb.view_num() - v);
                  const bool wrap = dv > V - dv;
                  const int dview = std::min(dv, V - dv);
                  const int dseg = wrap ? nb.segment_num() + sg : nb.segment_num() - sg;
                  const int dtp = wrap ? nb.tangential_pos_num() + tp : nb.tangential_pos_num() - tp;
                  if (dseg != 0 || dview > 1 || std::abs(dtp) > 1 || std::abs(nb.axial_pos_num() - a) > 1)
                    ofail("generic-roundtrip-step", "get_bin(get_LOR(bin)) is more than one step away: " + bstr(b) + " -> " + bstr(nb));
                }
            }
          }
  total.rt_same += exact;
  total.rt_miss += missed;
}

// ---------------------------------------------------------------------------------------------
// overlap_interpolate on float rows with dyadic box boundaries (exactly representable), and ArcCorrection
static void
run_overlap(vh::Rng& rng, int ncases)
{
  for (int k = 0; k < ncases; ++k)
    {
      const int nin = rng.range(1, 12), nout = rng.range(1, 12);
      const int kind = rng.range(0, 5);
      std::vector<float> ic(nin + 1), oc(nout + 1), iv(nin), ov(nout);
      // boundaries on a grid of 1/64 (sometimes plus a sliver of 2^-18 to exercise the epsilon rule)
      double x = rng.range(-200, 200) / 64.0;
      for (int i = 0; i <= nin; ++i)
        {
          ic[i] = (float)x;
          x += rng.range(1, 96) / 64.0;
        }
      double y = kind == 0 ? ic[0] : (kind == 1 ? ic[0] - rng.range(1, 200) / 64.0 : ic[0] + rng.range(-300, 300) / 64.0);
      for (int j = 0; j <= nout; ++j)
        {
          oc[j] = (float)y;
          if (kind == 3 && rng.range(0, 2) == 0)
            { // coincide with an input boundary, or miss it by a sliver
              const int i = rng.range(0, nin);
              if (ic[i] > oc[j > 0 ? j - 1 : 0] || j == 0)
                oc[j] = ic[i] + (rng.range(0, 2) - 1) * (1.0F / 262144.F);
            }
          y = oc[j] + rng.range(1, 96) / 64.0;
        }
      if (kind == 1)
        oc[nout] = std::max(oc[nout], ic[nin] + rng.range(0, 64) / 64.0F); // output covers input
      bool ok = true;
      for (int j = 0; j < nout; ++j)
        if (!(oc[j + 1] > oc[j]))
          ok = false;
      if (!ok)
        continue;
      for (int i = 0; i < nin; ++i)
        iv[i] = (kind == 4 ? 1.F : (float)(rng.range(-4096, 4096) / 256.0));
      for (int j = 0; j < nout; ++j)
        ov[j] = (float)(rng.range(-1024, 1024) / 64.0);
      const bool only_add = rng.range(0, 3) == 0, assign_rest = rng.range(0, 3) != 0;
      std::ostringstream line;
      line << "ovl " << (only_add ? 1 : 0) << " " << (assign_rest ? 1 : 0) << " |";
      for (float v : oc)
        line << " " << vh::hex(v);
      line << " |";
      for (float v : ic)
        line << " " << vh::hex(v);
      line << " |";
      for (float v : iv)
        line << " " << vh::hex(v);
      line << " |";
      for (float v : ov)
        line << " " << vh::hex(v);
      std::vector<float> res = ov;
      overlap_interpolate(res.begin(), res.end(), oc.begin(), oc.end(), iv.begin(), iv.end(), ic.begin(), ic.end(), only_add, assign_rest);
      std::fprintf(ops, "%s\n", line.str().c_str());
      std::ostringstream o;
      for (std::size_t j = 0; j < res.size(); ++j)
        o << (j ? " " : "") << vh::hex(res[j]);
      std::fprintf(out, "%s\n", o.str().c_str());
      // ORACLE: integral preserved when the output range covers the input range (overwrite mode), up to slivers
      if (!only_add && assign_rest && oc[0] <= ic[0] && oc[nout] >= ic[nin])
        {
          ++oracle_checks;
          double sin_ = 0, sout = 0, mag = 0;
          for (int i = 0; i < nin; ++i)
            {
              sin_ += double(iv[i]) * (double(ic[i + 1]) - ic[i]);
              mag += std::fabs(double(iv[i])) * (double(ic[i + 1]) - ic[i]);
            }
          for (int j = 0; j < nout; ++j)
            sout += res[j];
          if (!near(sin_, sout, 1e-3 * mag + 1e-6))
            ofail("overlap-conserve", "overlap_interpolate does not preserve the integral although the output covers the input");
        }
    }
}

static void
run_arc(vh::Rng& rng, int ncases)
{
  for (int k = 0; k < ncases; ++k)
    {
      Cfg c;
      c.N = 2 * rng.range(8, thorough ? 160 : 64);
      c.R = 1;
      c.radius = (float)(rng.range(400, 4000) / 8.0);
      c.doi = (float)(rng.range(0, 80) / 8.0);
      c.binsize = (float)(rng.range(4, 40) / 8.0);
      c.span = 1;
      c.max_delta = 0;
      c.views = c.N / 2;
      const int maxtang = c.N - 1;
      c.ntang = rng.range(3, maxtang);
      // keep away from the extreme tangential positions in most cases
      if (rng.range(0, 3) != 0)
        c.ntang = std::max(3, std::min(c.ntang, (int)(c.N * 0.6)));
      shared_ptr<Scanner> sc = make_scanner(c);
      shared_ptr<ProjDataInfo> pdi = vh::make_pdi(sc, 1, 0, c.views, c.ntang, false, 0);
      ArcCorrection ac;
      int mode = rng.range(0, 2);
      if (k == 0)
        mode = 0;
      int nout = 0;
      float bs = 0;
      Succeeded ok = Succeeded::no;
      if (mode == 0)
        {
          nout = rng.range(1, 2 * c.N);
          bs = (float)(rng.range(2, 64) / 8.0);
          if (k == 0)
            nout = 5, bs = 2.F; // arc-corrected range ends inside the data
          ok = ac.set_up(pdi, nout, bs);
        }
      else if (mode == 1)
        {
          nout = rng.range(1, 2 * c.N);
          ok = ac.set_up(pdi, nout);
        }
      else
        ok = ac.set_up(pdi);
      if (ok != Succeeded::yes)
        {
          ofail("arc-setup", "ArcCorrection::set_up failed for a non-arc-corrected geometry");
          continue;
        }
      const ProjDataInfoCylindricalArcCorr& pa = ac.get_arc_corrected_proj_data_info();
      const ProjDataInfoCylindricalNoArcCorr& pn = ac.get_not_arc_corrected_proj_data_info();
      const int imin = pn.get_min_tangential_pos_num(), imax = pn.get_max_tangential_pos_num();
      const int omin = pa.get_min_tangential_pos_num(), omax = pa.get_max_tangential_pos_num();
      const double Reff = sc->get_effective_ring_radius();
      const double dout = pa.get_tangential_sampling();
      const double ang = pn.get_angular_increment();
      Sinogram<float> sino_in = pn.get_empty_sinogram(0, 0);
      for (int rep = 0; rep < 3 && rep <= sino_in.get_max_view_num(); ++rep)
        for (int i = imin; i <= imax; ++i)
          sino_in[rep][i] = rep == 0 ? 1.F : (rep == 1 ? (float)(rng.range(0, 4096) / 64.0) : (float)(rng.range(-2048, 2048) / 64.0));
      const Sinogram<float> sino_out = ac.do_arc_correction(sino_in);
      for (int rep = 0; rep < 3 && rep <= sino_in.get_max_view_num(); ++rep)
        {
          const Array<1, float>& in = sino_in[rep];
          const Array<1, float>& res = sino_out[rep];
          std::ostringstream line, o;
          line << "arc " << c.N << " " << vh::hex(Reff) << " " << imin << " " << imax << " " << omin << " " << omax << " " << vh::hex(dout)
               << " " << vh::hex(ang) << " |";
          for (int i = imin; i <= imax; ++i)
            line << " " << vh::hex(in[i]);
          for (int j = omin; j <= omax; ++j)
            o << (j > omin ? " " : "") << vh::hex(res[j]);
          std::fprintf(ops, "%s\n", line.str().c_str());
          std::fprintf(out, "%s\n", o.str().c_str());
          // ORACLE (statement): the integral over the tangential coordinate is preserved when the arc-corrected range covers the data;
          // uniform data stay uniform away from the edges
          const double in_lo = Reff * std::sin((imin - 0.5) * ang), in_hi = Reff * std::sin((imax + 0.5) * ang);
          const double out_lo = (omin - 0.5) * dout, out_hi = (omax + 0.5) * dout;
          double sin_ = 0, mag = 0, sout = 0;
          for (int i = imin; i <= imax; ++i)
            {
              const double w = Reff * (std::sin((i + 0.5) * ang) - std::sin((i - 0.5) * ang));
              sin_ += in[i] * w;
              mag += std::fabs(in[i]) * w;
            }
          for (int j = omin; j <= omax; ++j)
            sout += res[j] * dout;
          if (out_lo <= in_lo && out_hi >= in_hi)
            {
              ++oracle_checks;
              if (!near(sin_, sout, 2e-3 * mag + 1e-6))
                ofail("arc-integral", "arc correction does not preserve the integral over the tangential coordinate");
            }
          if (rep == 0)
            for (int j = omin; j <= omax; ++j)
              {
                const double lo = (j - 0.5) * dout, hi = (j + 0.5) * dout;
                ++oracle_checks;
                if (lo >= in_lo + 1e-3 && hi <= in_hi - 1e-3)
                  {
                    if (!near(res[j], 1.0, 2e-3))
                      ofail("arc-uniform-data", "arc correction of uniform data is not uniform away from the edges (N=" + std::to_string(c.N)
                                                    + " j=" + std::to_string(j) + " value=" + std::to_string(res[j]) + ")");
                  }
                else if (hi <= in_lo - 1e-3 || lo >= in_hi + 1e-3)
                  {
                    if (res[j] != 0)
                      ofail("arc-outside", "arc-corrected bin outside the measured range is not zero");
                  }
              }
        }
    }
}

// ---------------------------------------------------------------------------------------------
static int
largest_complete_max_delta(int span, int R, vh::Rng& rng, bool full)
{
  // ring differences covered by complete segments: |rd| <= first + k*span
  const int first = span % 2 ? (span - 1) / 2 : span / 2;
  if (first > R - 1)
    return -1;
  const int kmax = (R - 1 - first) / span;
  const int k = full ? kmax : rng.range(0, kmax);
  return first + k * span;
}

int
main(int argc, char** argv)
{
  if (argc < 5)
    return 2;
  vh::quiet();
  if (!std::getenv("C12_STDERR"))
    std::freopen("/dev/null", "w", stderr); // STIR warnings (e.g. one per missed crystal look-up) are not part of the protocol
  vh::Rng rng(std::strtoull(argv[1], nullptr, 10) * 2654435761ULL + 12);
  thorough = std::string(argv[2]) == "thorough";
  ops = std::fopen(argv[3], "w");
  out = std::fopen(argv[4], "w");
  orc = std::fopen((std::string(argv[4]) + ".oracle").c_str(), "w");
  std::vector<Cfg> cfgs;

  // ---- fixed configurations (they also make every candidate-finding class show up for every seed)
  {
    Cfg c;
    c.N = 16, c.R = 3, c.span = 1, c.max_delta = 2, c.views = 8, c.ntang = 15;
    cfgs.push_back(c); // full tangential range
    c.R = 5, c.span = 3, c.max_delta = 4, c.ntang = 9;
    cfgs.push_back(c); // odd span
    c.views = 4;
    cfgs.push_back(c); // + view mashing
    c.views = 8, c.R = 6, c.span = 2, c.max_delta = 5;
    cfgs.push_back(c); // even span
    c.R = 5, c.span = 4, c.max_delta = 1;
    cfgs.push_back(c); // even span clipped below span/2
    c.R = 3, c.span = 1, c.max_delta = 2, c.tof_bins = 5, c.tof_mash = 1, c.tilt = -0.3F;
    cfgs.push_back(c); // TOF, tilt
    c.arc = true;
    cfgs.push_back(c); // arc-corrected TOF
    c.tof_bins = -1, c.tof_mash = 0, c.R = 5, c.span = 3, c.max_delta = 4, c.views = 4, c.ntang = 31;
    cfgs.push_back(c); // arc-corrected, span, mashing, tilt
  }
  // ---- all predefined scanners, non-arc-corrected and arc-corrected
  for (int ty = Scanner::E931; ty != Scanner::Unknown_scanner; ++ty)
    {
      if (ty == Scanner::User_defined_scanner)
        continue;
      Scanner s(static_cast<Scanner::Type>(ty));
      if (s.get_num_detectors_per_ring() <= 0 || s.get_num_rings() <= 0)
        continue; // HiDAC
      for (int arc = 0; arc < 2; ++arc)
        {
          Cfg c;
          c.name = s.get_name();
          c.N = s.get_num_detectors_per_ring();
          c.R = s.get_num_rings();
          const std::string g = s.get_scanner_geometry();
          c.geom = g == "Cylindrical" ? "cyl" : (g == "BlocksOnCylindrical" ? "blocks" : "generic");
          if (c.geom != "cyl" && arc)
            continue;
          c.arc = arc != 0;
          const int kind = rng.range(0, 5);
          c.span = c.geom != "cyl" ? 1 : (kind < 2 ? 1 : (kind < 5 ? 2 * rng.range(1, 5) + 1 : 2 * rng.range(1, 3)));
          while (c.span > 1 && largest_complete_max_delta(c.span, c.R, rng, true) < 0)
            c.span -= 2;
          if (c.span < 1)
            c.span = 1;
          c.max_delta = largest_complete_max_delta(c.span, c.R, rng, rng.range(0, 1) == 0);
          // view mashing: a divisor of N/2 (small ones)
          std::vector<int> divs;
          for (int d = 1; d <= 8; ++d)
            if ((c.N / 2) % d == 0)
              divs.push_back(d);
          const int mash = c.geom != "cyl" ? 1 : divs[rng.range(0, (int)divs.size() - 1) * rng.range(0, 1)];
          c.views = c.N / 2 / mash;
          if (arc)
            {
              const double Reff = s.get_effective_ring_radius();
              const int fit = 2 * (int)std::floor(0.97 * Reff / s.get_default_bin_size()) - 1;
              c.ntang = std::max(1, std::min(s.get_default_num_arccorrected_bins(), fit));
            }
          else
            c.ntang = std::min(s.get_max_num_non_arccorrected_bins(), c.N - 1);
          c.tof_mash = 0;
          if (s.is_tof_ready() && c.geom == "cyl" && rng.range(0, 3) != 0)
            {
              // a mashing factor giving an odd number of TOF bins
              const int mx = s.get_max_num_timing_poss();
              std::vector<int> ok;
              for (int f = 1; f <= mx; ++f)
                if ((mx / f) % 2 == 1)
                  ok.push_back(f);
              if (!ok.empty())
                c.tof_mash = ok[rng.range(0, (int)ok.size() - 1)];
            }
          cfgs.push_back(c);
        }
    }
  // ---- generated cylindrical scanners
  const int ngen = thorough ? 160 : 40;
  for (int k = 0; k < ngen; ++k)
    {
      Cfg c;
      c.N = 2 * rng.range(2, thorough ? 60 : 24);
      c.R = rng.range(1, 9);
      c.radius = (float)(rng.range(200, 4000) / 8.0);
      c.doi = (float)(rng.range(0, 80) / 8.0);
      c.spacing = (float)(rng.range(8, 80) / 8.0);
      c.binsize = (float)(rng.range(4, 40) / 8.0);
      c.tilt = rng.range(0, 2) == 0 ? 0.F : (float)(rng.range(-400, 400) / 1000.0);
      const int kind = rng.range(0, 9);
      c.span = kind < 4 ? 1 : (kind < 8 ? 2 * rng.range(1, 4) + 1 : 2 * rng.range(1, 3));
      while (c.span > 1 && largest_complete_max_delta(c.span, c.R, rng, true) < 0)
        c.span -= (c.span % 2 ? 2 : 1);
      if (c.span < 1)
        c.span = 1;
      c.max_delta = largest_complete_max_delta(c.span, c.R, rng, rng.range(0, 2) != 0);
      if (rng.range(0, 5) == 0)
        c.max_delta = rng.range((c.span - 1) / 2, c.R - 1); // possibly a clipped last segment
      std::vector<int> divs;
      for (int d = 1; d <= c.N / 2; ++d)
        if ((c.N / 2) % d == 0)
          divs.push_back(d);
      c.views = c.N / 2 / divs[rng.range(0, (int)divs.size() - 1) * rng.range(0, 1)];
      if (c.views < 2)
        c.views = c.N / 2; // (with a single view the mashed views span the half circle and the averaged angle is meaningless)
      c.arc = rng.range(0, 2) == 0;
      const bool tof = rng.range(0, 2) == 0;
      c.tof_bins = tof ? rng.range(1, 17) : -1;
      c.tofsize = (float)(rng.range(80, 4000) / 8.0);
      c.tof_mash = 0;
      if (tof && rng.range(0, 5) != 0)
        {
          std::vector<int> ok;
          for (int f = 1; f <= c.tof_bins; ++f)
            if ((c.tof_bins / f) % 2 == 1)
              ok.push_back(f);
          if (!ok.empty())
            c.tof_mash = ok[rng.range(0, (int)ok.size() - 1)];
        }
      if (c.arc)
        {
          const int fit = 2 * (int)std::floor(0.97 * (c.radius + c.doi) / c.binsize) - 1;
          c.ntang = std::max(1, std::min(rng.range(1, 2 * c.N), fit));
        }
      else
        c.ntang = rng.range(0, 3) == 0 ? c.N - 1 : rng.range(1, c.N - 1);
      cfgs.push_back(c);
    }
  // ---- malformed: rejected by the constructors
  {
    Cfg c;
    c.N = 16, c.R = 4, c.span = 9, c.max_delta = 3, c.views = 8, c.ntang = 7;
    cfgs.push_back(c); // span too large
    c.span = 1, c.max_delta = 5;
    cfgs.push_back(c); // max_delta too large
    c.max_delta = 3, c.ntang = 16;
    cfgs.push_back(c); // tangential range too large for the detector tables / scanner
    c.ntang = 7, c.tof_bins = 8, c.tof_mash = 2;
    cfgs.push_back(c); // even number of TOF bins
    c.tof_mash = 9;
    cfgs.push_back(c); // mashing factor larger than the number of TOF bins
  }
  // ---- blocks-on-cylindrical and generic scanners
  const int nblocks = thorough ? 24 : 6;
  for (int k = 0; k < nblocks; ++k)
    {
      Cfg c;
      c.geom = (k % 3 == 2) ? "generic" : "blocks";
      const int nbuckets = 2 * rng.range(2, 8);
      c.tr_blocks_per_bucket = rng.range(1, 2);
      c.tr_cryst_per_block = rng.range(1, 5);
      c.N = nbuckets * c.tr_blocks_per_bucket * c.tr_cryst_per_block;
      if (c.N % 2)
        continue;
      const int ax_buckets = 1; // (more than one axial bucket is rejected by Scanner::check_consistency)
      c.ax_blocks_per_bucket = rng.range(1, 3);
      c.ax_cryst_per_block = rng.range(1, 3);
      c.R = ax_buckets * c.ax_blocks_per_bucket * c.ax_cryst_per_block;
      c.radius = (float)(rng.range(400, 2400) / 8.0);
      c.doi = (float)(rng.range(0, 40) / 8.0);
      c.tr_cryst_spacing = (float)(rng.range(8, 32) / 8.0);
      c.ax_cryst_spacing = (float)(rng.range(8, 32) / 8.0);
      c.spacing = c.ax_cryst_spacing;
      // Scanner::check_consistency wants  2 R_inner tan(pi/(2 nbuckets)) <= bucket width ; physically  bucket width <= 2 R tan(pi/nbuckets)
      {
        const double side = 2 * c.radius * std::tan(PI / nbuckets);
        const double width = side * (0.6 + 0.3 * rng.unit());
        c.tr_cryst_spacing = (float)(std::floor(width / (c.tr_blocks_per_bucket * c.tr_cryst_per_block) * 16) / 16.0);
        if (c.tr_cryst_spacing <= 0)
          continue;
        c.tr_block_spacing = c.tr_cryst_spacing * c.tr_cryst_per_block + (rng.range(0, 1) ? 0.F : 0.0625F * rng.range(0, 4));
        if (c.tr_block_spacing * c.tr_blocks_per_bucket < 2 * c.radius * std::tan(PI / 2 / nbuckets) * 1.02)
          continue;
      }
      c.ax_block_spacing = c.ax_cryst_spacing * c.ax_cryst_per_block + (rng.range(0, 1) ? 0.F : (float)(rng.range(0, 8) / 8.0));
      c.tilt = rng.range(0, 1) ? 0.F : (float)(rng.range(-200, 200) / 1000.0);
      c.span = 1;
      c.max_delta = c.R - 1;
      c.views = c.N / 2;
      c.ntang = c.N - 1;
      cfgs.push_back(c);
    }

  int ncfg = 0;
  for (auto& c0 : cfgs)
    {
      Cfg c = c0;
      try
        {
          shared_ptr<Scanner> scanner;
          if (c.geom == "generic" && c.name.empty())
            {
              // crystal map file written from the coordinates of the corresponding blocks scanner, radially perturbed
              Cfg cb = c;
              cb.geom = "blocks";
              shared_ptr<Scanner> sb = make_scanner(cb);
              c.mapfile = std::string(argv[4]) + ".crystalmap" + std::to_string(ncfg);
              FILE* mf = std::fopen(c.mapfile.c_str(), "w");
              for (int ax = 0; ax < cb.R; ++ax)
                for (int tg = 0; tg < cb.N; ++tg)
                  {
                    const CartesianCoordinate3D<float> x = sb->get_coordinate_for_det_pos(DetectionPosition<>(tg, ax, 0));
                    const double f = 1.0 + 0.03 * std::sin(3.0 * tg * 2 * PI / cb.N);
                    std::fprintf(mf, "%d,%d,%.4f,%.4f,%.4f\n", ax, tg, x.x() * f, x.y() * f, (double)x.z());
                  }
              std::fclose(mf);
            }
          ++ncfg;
          shared_ptr<ProjDataInfo> pdi = build(c, scanner);
          if (!pdi)
            continue;
          if (c.geom == "cyl")
            {
              run_tof(*pdi, rng);
              run_pdi(c, scanner, pdi, rng);
            }
          else
            run_generic(c, scanner, pdi, rng);
          if (!c.mapfile.empty())
            std::remove(c.mapfile.c_str());
        }
      catch (std::exception& e)
        {
          ofail("exception", std::string("exception in configuration: ") + e.what());
        }
    }
  cur_cfg = "overlap_interpolate / ArcCorrection";
  try
    {
      run_overlap(rng, thorough ? 4000 : 800);
      run_arc(rng, thorough ? 300 : 60);
    }
  catch (std::exception& e)
    {
      ofail("exception", std::string("exception in overlap/arc correction: ") + e.what());
    }
  std::fprintf(orc, "# bins=%ld rt_same=%ld rt_step=%ld rt_wrap=%ld rt_miss=%ld det_checked=%ld configs=%d\n", total.bins, total.rt_same,
               total.rt_step, total.rt_wrap, total.rt_miss, total.det_checked, ncfg);
  for (auto& kv : fail_kinds)
    std::fprintf(orc, "# fail-kind %s %ld\n", kv.first.c_str(), kv.second);
  std::fprintf(orc, "ORACLE-DONE checks=%ld fails=%ld\n", oracle_checks, oracle_fails);
  std::fclose(ops);
  std::fclose(out);
  std::fclose(orc);
  return 0;
}
