// C11 — implementation side: executes a history of array operations on the real
// stir::Array<1,int> / VectorWithOffset<int> / NumericVectorWithOffset (header-only code,
// compiled here with AddressSanitizer + UBSan) and prints the observable state after every step.
//
//   c11_arrays exec <opsfile> <outfile>     line protocol (see lean/Driver/C11.lean): 3 registers of Array<1,int>;
//                                           storage operations and the whole arithmetic of the numeric classes
//   c11_arrays nd <seed> <histories> <len> <outfile>   N-dim arrays (2..4), views and constructors vs reference maps (oracle)
//
// Every output line is flushed before the next operation runs, so that after a sanitizer
// abort the last line of <outfile> identifies the operation that aborted.
#include "stir/Array.h"
#include "stir/IndexRange.h"
#include "stir/IndexRange2D.h"
#include "stir/IndexRange3D.h"
#include "stir/VectorWithOffset.h"
#include "stir/shared_ptr.h"
#include "stir/copy_fill.h"
#include "stir/NumericVectorWithOffset.h"
#include "stir/array_index_functions.h"
#include "stir/BasicCoordinate.h"
#include "common.h"
#include <map>
#include <set>
#include <functional>
#include <memory>
#include <stdexcept>
#if defined(__SANITIZE_ADDRESS__)
#  include <sanitizer/common_interface_defs.h>
#endif

using namespace stir;
typedef Array<1, int> A1;

static std::string
dump(const A1& a)
{
  std::ostringstream s;
  s << a.get_min_index() << "," << a.get_max_index() << ":[";
  bool first = true;
  for (A1::const_iterator it = a.begin(); it != a.end(); ++it)
    {
      if (!first)
        s << " ";
      first = false;
      s << *it;
    }
  s << "]";
  return s.str();
}

// guards shared with the model (StirVerif.C11.Vec.small / noZero / smallInt): an arithmetic operation is
// executed only if no 32-bit overflow and no division by zero can occur (both undefined behaviour in C++,
// outside the property); otherwise harness and model both answer "skip" and leave the state alone
static const int BOUND = 30000;
static bool
small_int(int x)
{
  return x >= -BOUND && x <= BOUND;
}
static bool
small(const A1& a)
{
  for (A1::const_iterator it = a.begin(); it != a.end(); ++it)
    if (!small_int(*it))
      return false;
  return true;
}
static bool
no_zero(const A1& a)
{
  for (A1::const_iterator it = a.begin(); it != a.end(); ++it)
    if (*it == 0)
      return false;
  return true;
}

static int
run_exec(const char* opsfile, const char* outfile)
{
  std::ifstream in(opsfile);
  FILE* out = std::fopen(outfile, "w");
  if (!in || !out)
    return 2;
  std::unique_ptr<A1> r[3];
  for (auto& p : r)
    p.reset(new A1);
  std::string line;
  while (std::getline(in, line))
    {
      const std::vector<std::string> t = vh::split(line);
      if (t.empty())
        continue;
      // announce the operation before running it (for post-mortem of sanitizer aborts)
      std::string res = "ok";
      const std::string& op = t[0];
      auto I = [&](int k) { return std::atoi(t.at(k).c_str()); };
      if (op == "reset")
        {
          for (auto& p : r)
            p.reset(new A1);
          std::fprintf(out, "reset\n");
          std::fflush(out);
          continue;
        }
      std::fprintf(out, "@%s\n", line.c_str());
      std::fflush(out);
      try
        {
          if (op == "resize")
            r[I(1)]->resize(I(2), I(3));
          else if (op == "grow")
            r[I(1)]->grow(I(2), I(3));
          else if (op == "reserve")
            r[I(1)]->reserve(I(2), I(3));
          else if (op == "setoff")
            r[I(1)]->set_offset(I(2));
          else if (op == "assign")
            *r[I(1)] = *r[I(2)];
          else if (op == "fill")
            r[I(1)]->fill(I(2));
          else if (op == "set")
            {
              try
                {
                  r[I(1)]->at(I(2)) = I(3);
                }
              catch (std::out_of_range&)
                {
                  res = "err";
                }
            }
          else if (op == "get")
            {
              try
                {
                  const A1& c = *r[I(1)];
                  res = "val:" + std::to_string(c.at(I(2)));
                }
              catch (std::out_of_range&)
                {
                  res = "err";
                }
            }
          else if (op == "add")
            {
              if (!(small(*r[I(1)]) && small(*r[I(2)])))
                res = "skip";
              else
                *r[I(1)] += *r[I(2)];
            }
          else if (op == "badd")
            {
              if (!(small(*r[I(1)]) && small(*r[I(2)])))
                res = "skip";
              else
                {
                  try
                    {
                      r[I(1)]->VectorWithOffset<int>::operator+=(*r[I(2)]);
                    }
                  catch (std::exception&)
                    {
                      res = "err";
                    }
                }
            }
          else if (op == "sub" || op == "mul" || op == "div")
            {
              A1& d = *r[I(1)];
              const A1& v = *r[I(2)];
              if (!(small(d) && small(v) && (op != "div" || no_zero(v))))
                res = "skip";
              else if (op == "sub")
                d -= v;
              else if (op == "mul")
                d *= v;
              else
                d /= v;
            }
          else if (op == "bsub" || op == "bmul" || op == "bdiv")
            {
              A1& d = *r[I(1)];
              const A1& v = *r[I(2)];
              if (!(small(d) && small(v) && (op != "bdiv" || no_zero(v))))
                res = "skip";
              else
                {
                  try
                    {
                      if (op == "bsub")
                        d.VectorWithOffset<int>::operator-=(v);
                      else if (op == "bmul")
                        d.VectorWithOffset<int>::operator*=(v);
                      else
                        d.VectorWithOffset<int>::operator/=(v);
                    }
                  catch (std::exception&)
                    {
                      res = "err";
                    }
                }
            }
          else if (op == "sadd" || op == "ssub" || op == "smul" || op == "sdiv")
            {
              A1& d = *r[I(1)];
              const int x = I(2);
              if (!(small(d) && small_int(x) && (op != "sdiv" || x != 0)))
                res = "skip";
              else if (op == "sadd")
                d += x;
              else if (op == "ssub")
                d -= x;
              else if (op == "smul")
                d *= x;
              else
                d /= x;
            }
          else if (op == "plus" || op == "minus" || op == "times" || op == "over")
            {
              A1& d = *r[I(1)];
              const A1& x = *r[I(2)];
              const A1& y = *r[I(3)];
              if (!(small(x) && small(y) && (op != "over" || no_zero(y))))
                res = "skip";
              else if (op == "plus")
                d = x + y;
              else if (op == "minus")
                d = x - y;
              else if (op == "times")
                d = x * y;
              else
                d = x / y;
            }
          else if (op == "pluss" || op == "minuss" || op == "timess" || op == "overs")
            {
              A1& d = *r[I(1)];
              const A1& x = *r[I(2)];
              const int c = I(3);
              if (!(small(x) && small_int(c) && (op != "overs" || c != 0)))
                res = "skip";
              else if (op == "pluss")
                d = x + c;
              else if (op == "minuss")
                d = x - c;
              else if (op == "timess")
                d = x * c;
              else
                d = x / c;
            }
          else if (op == "xapyb")
            {
              A1& d = *r[I(1)];
              const A1& x = *r[I(2)];
              const A1& y = *r[I(4)];
              if (!(small(x) && small(y) && small_int(I(3)) && small_int(I(5))))
                res = "skip";
              else
                {
                  try
                    {
                      d.xapyb(x, I(3), y, I(5));
                    }
                  catch (std::exception&)
                    {
                      res = "err";
                    }
                }
            }
          else if (op == "xapybv")
            {
              A1& d = *r[I(1)];
              const A1& x = *r[I(2)];
              const A1& a = *r[I(3)];
              const A1& y = *r[I(4)];
              const A1& b = *r[I(5)];
              if (!(small(x) && small(y) && small(a) && small(b)))
                res = "skip";
              else
                {
                  try
                    {
                      d.xapyb(x, a, y, b);
                    }
                  catch (std::exception&)
                    {
                      res = "err";
                    }
                }
            }
          else if (op == "sapyb")
            {
              A1& d = *r[I(1)];
              const A1& y = *r[I(3)];
              if (!(small(d) && small(y) && small_int(I(2)) && small_int(I(4))))
                res = "skip";
              else
                {
                  try
                    {
                      d.sapyb(I(2), y, I(4));
                    }
                  catch (std::exception&)
                    {
                      res = "err";
                    }
                }
            }
          else if (op == "sapybv")
            {
              A1& d = *r[I(1)];
              const A1& a = *r[I(2)];
              const A1& y = *r[I(3)];
              const A1& b = *r[I(4)];
              if (!(small(d) && small(y) && small(a) && small(b)))
                res = "skip";
              else
                {
                  try
                    {
                      d.sapyb(a, y, b);
                    }
                  catch (std::exception&)
                    {
                      res = "err";
                    }
                }
            }
          else if (op == "recycle")
            r[I(1)]->recycle();
          else if (op == "eq")
            res = (*r[I(1)] == *r[I(2)]) ? "bool:1" : "bool:0";
          else
            res = "bad-op";
        }
      catch (std::exception& e)
        {
          res = std::string("exception:") + e.what();
        }
      std::fprintf(out, "%s r0=%s r1=%s r2=%s\n", res.c_str(), dump(*r[0]).c_str(), dump(*r[1]).c_str(), dump(*r[2]).c_str());
      std::fflush(out);
    }
  std::fclose(out);
  return 0;
}

// ---------------------------------------------------------------------------------------
// N-dimensional oracle: random histories on Array<2..4,int> against a reference index-range
// map kept as a nested structure (Ref: every level has its own index range, rows may be empty
// or differ in range).  After every step: index range at every level, every element,
// size_all, full iteration order (row-major, each element once), equality; for viewing
// arrays the aliasing of the shared block.
// ---------------------------------------------------------------------------------------
typedef std::map<std::vector<int>, int> RefMap;
typedef std::vector<std::pair<std::vector<int>, int>> ElemList;
typedef std::vector<std::pair<int, int>> Box;

static long g_checks = 0; // number of oracle comparisons performed

// the history that is being executed, printed when a sanitizer aborts the process
static std::string g_current;
static void
on_sanitizer_death()
{
  std::fprintf(stderr, "\nABORTED-IN %s\n", g_current.c_str());
  std::fflush(stderr);
}

template <int D>
static void
collect(const Array<D, int>& a, std::vector<int>& prefix, ElemList& out)
{
  for (int i = a.get_min_index(); i <= a.get_max_index(); ++i)
    {
      prefix.push_back(i);
      collect(a[i], prefix, out);
      prefix.pop_back();
    }
}
template <>
void
collect<1>(const Array<1, int>& a, std::vector<int>& prefix, ElemList& out)
{
  for (int i = a.get_min_index(); i <= a.get_max_index(); ++i)
    {
      prefix.push_back(i);
      out.push_back(std::make_pair(prefix, a[i]));
      prefix.pop_back();
    }
}

// elements, size_all and full iteration of `a` against the expected element list (row-major)
template <int D>
static bool
check_elems(const Array<D, int>& a, const ElemList& ref, std::string& why)
{
  ++g_checks;
  ElemList elems;
  std::vector<int> prefix;
  collect(a, prefix, elems);
  if (elems.size() != ref.size())
    {
      why = "size " + std::to_string(elems.size()) + " vs reference " + std::to_string(ref.size());
      return false;
    }
  if (a.size_all() != ref.size())
    {
      why = "size_all() " + std::to_string(a.size_all()) + " vs reference " + std::to_string(ref.size());
      return false;
    }
  // nested-index traversal is lexicographic; begin_all must visit the same sequence
  typename Array<D, int>::const_full_iterator fit = a.begin_all_const();
  for (std::size_t k = 0; k < elems.size(); ++k)
    {
      if (elems[k].first != ref[k].first || elems[k].second != ref[k].second)
        {
          why = "element " + std::to_string(k) + " differs from reference (value " + std::to_string(elems[k].second) + " vs "
                + std::to_string(ref[k].second) + ")";
          return false;
        }
      if (fit == a.end_all_const())
        {
          why = "full iteration ended early at " + std::to_string(k);
          return false;
        }
      if (*fit != elems[k].second)
        {
          why = "full iteration not row-major at position " + std::to_string(k);
          return false;
        }
      ++fit;
    }
  if (fit != a.end_all_const())
    {
      why = "full iteration visits more than size_all elements";
      return false;
    }
  return true;
}

template <int D>
static bool
check_against(const Array<D, int>& a, const RefMap& ref, std::string& why)
{
  return check_elems(a, ElemList(ref.begin(), ref.end()), why);
}

// reference: an index-range map with the index range of every level
struct Ref
{
  int dim;
  int lo;
  std::vector<Ref> sub; // dim > 1
  std::vector<int> val; // dim == 1
  explicit Ref(int d = 1)
      : dim(d),
        lo(0)
  {}
  int n() const { return dim == 1 ? static_cast<int>(val.size()) : static_cast<int>(sub.size()); }
  int hi() const { return lo + n() - 1; }
  bool has(int i) const { return n() > 0 && i >= lo && i <= hi(); }
  bool operator==(const Ref& o) const { return dim == o.dim && lo == o.lo && sub == o.sub && val == o.val; }
  bool operator!=(const Ref& o) const { return !(*this == o); }
};

static void
ref_flatten(const Ref& r, std::vector<int>& prefix, ElemList& out)
{
  for (int i = r.lo; i <= r.hi(); ++i)
    {
      prefix.push_back(i);
      if (r.dim == 1)
        out.push_back(std::make_pair(prefix, r.val[i - r.lo]));
      else
        ref_flatten(r.sub[i - r.lo], prefix, out);
      prefix.pop_back();
    }
}
static ElemList
ref_elems(const Ref& r)
{
  ElemList out;
  std::vector<int> prefix;
  ref_flatten(r, prefix, out);
  return out;
}

// resize to a regular box: surviving elements keep their values, new ones are zero
static void
ref_resize(Ref& r, const Box& box, std::size_t d = 0)
{
  const int mn = box[d].first, mx = box[d].second;
  if (mx < mn)
    {
      r.lo = 0;
      r.sub.clear();
      r.val.clear();
      return;
    }
  if (r.dim == 1)
    {
      std::vector<int> nv(mx - mn + 1, 0);
      for (int i = mn; i <= mx; ++i)
        if (r.has(i))
          nv[i - mn] = r.val[i - r.lo];
      r.val.swap(nv);
    }
  else
    {
      std::vector<Ref> ns;
      for (int i = mn; i <= mx; ++i)
        {
          Ref e(r.dim - 1);
          if (r.has(i))
            e = r.sub[i - r.lo];
          ref_resize(e, box, d + 1);
          ns.push_back(e);
        }
      r.sub.swap(ns);
    }
  r.lo = mn;
}

// grow the range of one level to [mn,mx] (a superset): new 1-D cells are zero, new rows are empty
static void
ref_grow_level(Ref& r, int mn, int mx)
{
  if (r.dim == 1)
    {
      std::vector<int> nv(mx - mn + 1, 0);
      for (int i = mn; i <= mx; ++i)
        if (r.has(i))
          nv[i - mn] = r.val[i - r.lo];
      r.val.swap(nv);
    }
  else
    {
      std::vector<Ref> ns;
      for (int i = mn; i <= mx; ++i)
        ns.push_back(r.has(i) ? r.sub[i - r.lo] : Ref(r.dim - 1));
      r.sub.swap(ns);
    }
  r.lo = mn;
}

enum ArOp
{
  ADD = 0,
  SUB,
  MUL,
  DIV
};
static const char* const ar_name[] = { "+=", "-=", "*=", "/=" };
static int
ar(ArOp op, int x, int y)
{
  return op == ADD ? x + y : op == SUB ? x - y : op == MUL ? x * y : x / y;
}
static void
ref_scalar(Ref& r, ArOp op, int s)
{
  if (r.dim == 1)
    for (int& x : r.val)
      x = ar(op, x, s);
  else
    for (Ref& e : r.sub)
      ref_scalar(e, op, s);
}
static bool
ref_all(const Ref& r, const std::function<bool(int)>& p)
{
  if (r.dim == 1)
    {
      for (int x : r.val)
        if (!p(x))
          return false;
      return true;
    }
  for (const Ref& e : r.sub)
    if (!ref_all(e, p))
      return false;
  return true;
}
static bool
ref_small(const Ref& r)
{
  return ref_all(r, [](int x) { return x >= -30000 && x <= 30000; });
}
static bool
ref_no_zero(const Ref& r)
{
  return ref_all(r, [](int x) { return x != 0; });
}
static bool
ref_has_empty(const Ref& r, bool innermost_only_ok = false)
{
  // is there an empty row below the top level?  (with the flag: empty rows above the innermost level only)
  if (r.dim == 1)
    return false;
  for (const Ref& e : r.sub)
    {
      if (e.n() == 0 && !(innermost_only_ok && e.dim == 1))
        return true;
      if (ref_has_empty(e, innermost_only_ok))
        return true;
    }
  return false;
}
static bool
same_shape(const Ref& a, const Ref& b)
{
  if (a.dim != b.dim || a.lo != b.lo || a.n() != b.n())
    return false;
  if (a.dim > 1)
    for (int k = 0; k < a.n(); ++k)
      if (!same_shape(a.sub[k], b.sub[k]))
        return false;
  return true;
}

// `w op= v` of numeric arrays as a statement about index-range maps: the range becomes the union of the
// two ranges, elements newly exposed are zero, `op` is applied where `v` has an element (recursively for
// rows); an empty `w` becomes `v` (+=), `-v` (-=) or zero on v's range (*=, /=).
// `empty_operand` / `grew_rows` report which special situations occurred (to name the class of a failure).
static void
ref_arith(Ref& w, ArOp op, const Ref& v, bool& empty_operand, bool& grew_rows)
{
  if (w.n() == 0)
    {
      w = v;
      if (op == SUB)
        ref_scalar(w, MUL, -1);
      else if (op == MUL || op == DIV)
        ref_scalar(w, MUL, 0);
      return;
    }
  if (v.n() == 0)
    {
      // the map of `v` has no element: nothing to combine, nothing to expose
      empty_operand = true;
      return;
    }
  const int mn = std::min(w.lo, v.lo), mx = std::max(w.hi(), v.hi());
  if (mn != w.lo || mx != w.hi())
    {
      if (w.dim > 1)
        grew_rows = true;
      ref_grow_level(w, mn, mx);
    }
  for (int i = v.lo; i <= v.hi(); ++i)
    {
      if (w.dim == 1)
        w.val[i - w.lo] = ar(op, w.val[i - w.lo], v.val[i - v.lo]);
      else
        ref_arith(w.sub[i - w.lo], op, v.sub[i - v.lo], empty_operand, grew_rows);
    }
}

// x*a + y*b elementwise on equal shapes
static void
ref_xapyb(Ref& w, const Ref& x, int a, const Ref& y, int b)
{
  if (w.dim == 1)
    for (int k = 0; k < w.n(); ++k)
      w.val[k] = x.val[k] * a + y.val[k] * b;
  else
    for (int k = 0; k < w.n(); ++k)
      ref_xapyb(w.sub[k], x.sub[k], a, y.sub[k], b);
}
static void
ref_xapyb_vec(Ref& w, const Ref& x, const Ref& a, const Ref& y, const Ref& b)
{
  if (w.dim == 1)
    for (int k = 0; k < w.n(); ++k)
      w.val[k] = x.val[k] * a.val[k] + y.val[k] * b.val[k];
  else
    for (int k = 0; k < w.n(); ++k)
      ref_xapyb_vec(w.sub[k], x.sub[k], a.sub[k], y.sub[k], b.sub[k]);
}

// regular = every row of a level has the same (regular) range; an empty level counts as regular with range (0,-1)
static bool
ref_regular(const Ref& r, std::vector<int>& mn, std::vector<int>& mx)
{
  if (r.n() == 0)
    {
      mn.assign(r.dim, 0);
      mx.assign(r.dim, -1);
      return true;
    }
  if (r.dim == 1)
    {
      mn.assign(1, r.lo);
      mx.assign(1, r.hi());
      return true;
    }
  std::vector<int> m0, M0, m, M;
  if (!ref_regular(r.sub[0], m0, M0))
    return false;
  for (int k = 1; k < r.n(); ++k)
    if (!ref_regular(r.sub[k], m, M) || m != m0 || M != M0)
      return false;
  mn.assign(1, r.lo);
  mn.insert(mn.end(), m0.begin(), m0.end());
  mx.assign(1, r.hi());
  mx.insert(mx.end(), M0.begin(), M0.end());
  return true;
}

template <int D>
static Ref
ref_from(const Array<D, int>& a)
{
  Ref r(D);
  if (a.size() == 0)
    return r;
  r.lo = a.get_min_index();
  for (int i = a.get_min_index(); i <= a.get_max_index(); ++i)
    r.sub.push_back(ref_from(a[i]));
  return r;
}
template <>
Ref
ref_from<1>(const Array<1, int>& a)
{
  Ref r(1);
  if (a.size() == 0)
    return r;
  r.lo = a.get_min_index();
  for (int i = a.get_min_index(); i <= a.get_max_index(); ++i)
    r.val.push_back(a[i]);
  return r;
}

// index range of every level ("size, index range ... reflect the contents")
template <int D>
static bool
check_shape(const Array<D, int>& a, const Ref& r, std::string& why)
{
  if (a.get_min_index() != r.lo || a.get_max_index() != r.hi() || static_cast<int>(a.size()) != r.n())
    {
      why = "index range " + std::to_string(a.get_min_index()) + ":" + std::to_string(a.get_max_index()) + " (size "
            + std::to_string(a.size()) + ") at a level of dimension " + std::to_string(D) + " vs reference " + std::to_string(r.lo)
            + ":" + std::to_string(r.hi());
      return false;
    }
  for (int i = r.lo; i <= r.hi(); ++i)
    if (!check_shape(a[i], r.sub[i - r.lo], why))
      return false;
  return true;
}
template <>
bool
check_shape<1>(const Array<1, int>& a, const Ref& r, std::string& why)
{
  if (a.get_min_index() != r.lo || a.get_max_index() != r.hi() || static_cast<int>(a.size()) != r.n())
    {
      why = "index range " + std::to_string(a.get_min_index()) + ":" + std::to_string(a.get_max_index()) + " (size "
            + std::to_string(a.size()) + ") of a row vs reference " + std::to_string(r.lo) + ":" + std::to_string(r.hi());
      return false;
    }
  return true;
}

// an empty array or row whose (empty) index range does not start at 0
template <int D>
static bool
has_noncanonical_empty(const Array<D, int>& a)
{
  if (a.size() == 0)
    return a.get_min_index() != 0;
  for (int i = a.get_min_index(); i <= a.get_max_index(); ++i)
    if (has_noncanonical_empty(a[i]))
      return true;
  return false;
}
template <>
bool
has_noncanonical_empty<1>(const Array<1, int>& a)
{
  return a.size() == 0 && a.get_min_index() != 0;
}

template <int D>
static bool
check_ref(const Array<D, int>& a, const Ref& r, std::string& why)
{
  return check_shape(a, r, why) && check_elems(a, ref_elems(r), why);
}

template <int D>
static IndexRange<D>
range_of(const Ref& r)
{
  VectorWithOffset<IndexRange<D - 1>> v(r.lo, r.hi());
  for (int i = r.lo; i <= r.hi(); ++i)
    v[i] = range_of<D - 1>(r.sub[i - r.lo]);
  return IndexRange<D>(v);
}
template <>
IndexRange<1>
range_of<1>(const Ref& r)
{
  return IndexRange<1>(r.lo, r.hi());
}

template <int D>
static BasicCoordinate<D, int>
coord(const std::vector<int>& c)
{
  BasicCoordinate<D, int> r;
  for (int d = 1; d <= D; ++d)
    r[d] = c[d - 1];
  return r;
}

template <int D>
static IndexRange<D>
make_range(const Box& box)
{
  BasicCoordinate<D, int> mn, mx;
  for (int d = 1; d <= D; ++d)
    {
      mn[d] = box[d - 1].first;
      mx[d] = box[d - 1].second;
    }
  return IndexRange<D>(mn, mx);
}

static std::string
box_str(const Box& box)
{
  std::ostringstream s;
  for (auto& bx : box)
    s << " " << bx.first << ":" << bx.second;
  return s.str();
}

static Box
random_box(vh::Rng& rng, int D)
{
  Box box(D);
  for (int d = 0; d < D; ++d)
    {
      const int lo = rng.range(-3, 3);
      box[d] = std::make_pair(lo, lo + rng.range(0, D >= 4 ? 2 : 3));
    }
  if (rng.range(0, 5) == 0)
    {
      // an empty range: mostly the whole array (outer dimension), else rows that are empty
      const int d = rng.range(0, 2) != 0 ? 0 : rng.range(0, D - 1);
      box[d].second = box[d].first - 1;
    }
  return box;
}

// fill b with 1,2,3,... in row-major order (array and reference)
template <int D>
static void
number_elements(Array<D, int>& b, Ref& rb, int first)
{
  ElemList el = ref_elems(rb);
  int v = first;
  std::function<void(Ref&)> rec = [&](Ref& r) {
    if (r.dim == 1)
      for (int& x : r.val)
        x = v++;
    else
      for (Ref& e : r.sub)
        rec(e);
  };
  rec(rb);
  v = first;
  for (auto& kv : el)
    b[coord<D>(kv.first)] = v++;
}

struct NdStats
{
  long steps = 0, fails = 0, known = 0;
  std::map<std::string, long> ops;
};

static void
oracle_fail(FILE* out, NdStats& st, int D, const std::string& what, const std::string& trace)
{
  ++st.fails;
  std::fprintf(out, "ORACLE-FAIL dim=%d %s | history: %s\n", D, what.c_str(), trace.c_str());
}
static void
known_candidate(FILE* out, NdStats& st, const char* key, int D, const std::string& what, const std::string& trace)
{
  ++st.known;
  std::fprintf(out, "KNOWN-CANDIDATE %s dim=%d %s | history: %s\n", key, D, what.c_str(), trace.c_str());
}

// Array<D>(range) for a range whose rows are empty keeps the rows' min index (e.g. 2:1) whereas every other way to
// reach an array without elements gives 0:-1, so that arrays with the same (empty) contents compare unequal: report that
// class once per occurrence and go on with the array resized to the same range
template <int D>
static void
construct_block(Array<D, int>& x, const Box& box, FILE* out, NdStats& st, const std::string& trace)
{
  x = Array<D, int>(make_range<D>(box));
  {
    // "Construct an Array of given range of indices, elements are initialised to 0"
    ++g_checks;
    bool zero = x.size_all() == make_range<D>(box).size_all();
    for (typename Array<D, int>::const_full_iterator it = x.begin_all_const(); it != x.end_all_const(); ++it)
      if (*it != 0)
        zero = false;
    if (!zero)
      oracle_fail(out, st, D, "Array(range) is not an array of zeros of the size of the range", trace);
  }
  if (has_noncanonical_empty(x))
    {
      Array<D, int> y;
      y.resize(make_range<D>(box));
      ++g_checks;
      if (!(x == y) || x.get_index_range() != y.get_index_range())
        known_candidate(out, st, "empty-range-min-index-kept", D,
                        "Array(range) with empty rows that do not start at 0 differs (operator==, get_index_range) from an array "
                        "resized to the same range, although neither has an element",
                        trace);
      x = y;
    }
}

// serialise the REAL array level by level for the Lean model of nested index-range maps (`nd` lines of Driver/C11.lean)
template <int D>
struct Ser
{
  static void put(std::ostream& s, const Array<D, int>& a)
  {
    s << "N " << a.get_min_index() << ' ' << a.size();
    for (int i = a.get_min_index(); i <= a.get_max_index(); ++i)
      {
        s << ' ';
        Ser<D - 1>::put(s, a[i]);
      }
  }
};
template <>
struct Ser<1>
{
  static void put(std::ostream& s, const Array<1, int>& a)
  {
    s << "L " << a.get_min_index() << ' ' << a.size();
    for (int i = a.get_min_index(); i <= a.get_max_index(); ++i)
      s << ' ' << a[i];
  }
};
// one question to the model: the checked access at `cc` and size_all(), with the implementation's own answer
template <int D>
static void
nd_question(FILE* out, const Array<D, int>& a, const std::vector<int>& cc, bool threw, int got)
{
  std::ostringstream s;
  s << "NDQ nd ";
  Ser<D>::put(s, a);
  s << " @";
  for (int d = 0; d < D; ++d)
    s << ' ' << cc[d];
  s << " => ";
  if (threw)
    s << "err";
  else
    s << "val:" << got;
  s << " size=" << a.size_all();
  std::fprintf(out, "%s\n", s.str().c_str());
}

// every checked access path: at(coordinate) and chained at(int), through a const and a non-const array
template <int D>
struct AtChain
{
  template <class ArrT>
  static int get(ArrT& a, const std::vector<int>& cc, int d)
  {
    return AtChain<D - 1>::get(a.at(cc[d]), cc, d + 1);
  }
};
template <>
struct AtChain<1>
{
  template <class ArrT>
  static int get(ArrT& a, const std::vector<int>& cc, int d)
  {
    return a.at(cc[d]);
  }
};
template <int D>
static int
checked_read(Array<D, int>& a, const std::vector<int>& cc, int form)
{
  const Array<D, int>& ca = a;
  switch (form)
    {
    case 0:
      return a.at(coord<D>(cc));
    case 1:
      return ca.at(coord<D>(cc));
    case 2:
      return AtChain<D>::get(a, cc, 0);
    default:
      return AtChain<D>::get(ca, cc, 0);
    }
}

template <int D>
static void
nd_histories(vh::Rng& rng, int histories, int len, FILE* out, NdStats& st)
{
  typedef Array<D, int> A;
  for (int h = 0; h < histories; ++h)
    {
      A a, b, c;
      Ref ra(D), rb(D), rc(D);
      std::ostringstream trace;
      bool stop = false;
      for (int s = 0; s < len && !stop; ++s)
        {
          ++st.steps;
          g_current = "dim=" + std::to_string(D) + " history: " + trace.str() + " <next step>";
          const int which = rng.range(0, 27);
          const Box box = random_box(rng, D);
          const ArOp aop = static_cast<ArOp>(rng.range(0, 3));
          const int sc = rng.range(-3, 3);
          const char* opname = "";
          try
            {
              if (which <= 2)
                {
                  opname = "resize";
                  trace << "a.resize" << box_str(box) << "; ";
                  a.resize(make_range<D>(box));
                  ref_resize(ra, box);
                }
              else if (which == 3)
                {
                  opname = "new-block-b";
                  trace << "b=Array(" << box_str(box) << ") numbered; ";
                  construct_block(b, box, out, st, trace.str());
                  rb = Ref(D);
                  ref_resize(rb, box);
                  number_elements(b, rb, 1);
                }
              else if (which == 4)
                {
                  opname = "copy-assign";
                  trace << "a=b; ";
                  a = b;
                  ra = rb;
                }
              else if (which == 5)
                {
                  opname = "fill";
                  const int v = rng.range(-5, 5);
                  trace << "a.fill(" << v << "); ";
                  a.fill(v);
                  ref_scalar(ra, MUL, 0);
                  ref_scalar(ra, ADD, v);
                }
              else if (which == 6)
                {
                  ElemList el = ref_elems(ra);
                  if (!el.empty())
                    {
                      opname = "set";
                      const std::vector<int> cc = el[rng.range(0, static_cast<int>(el.size()) - 1)].first;
                      const int v = rng.range(-9, 9);
                      trace << "a.at(..)=" << v << "; ";
                      a.at(coord<D>(cc)) = v;
                      {
                        // read it back through one of the checked access paths (const / non-const, coordinate / chained)
                        const int form = rng.range(0, 3);
                        int got = v + 1;
                        bool threw = false;
                        try
                          {
                            got = checked_read<D>(a, cc, form);
                          }
                        catch (std::out_of_range&)
                          {
                            threw = true;
                          }
                        ++g_checks;
                        if (a.size_all() <= 400)
                          nd_question<D>(out, a, cc, threw, got);
                        if (threw || got != v)
                          {
                            oracle_fail(out, st, D,
                                        std::string("checked read (form ") + std::to_string(form) + ") inside the range "
                                            + (threw ? "threw" : "returned another element"),
                                        trace.str());
                            stop = true;
                          }
                      }
                      Ref* r = &ra;
                      for (int d = 0; d + 1 < D; ++d)
                        r = &r->sub[cc[d] - r->lo];
                      r->val[cc[D - 1] - r->lo] = v;
                    }
                }
              else if (which == 7)
                {
                  opname = "copy-construct";
                  trace << "copy-construct; ";
                  A cc(a);
                  std::string why;
                  if (!check_ref(cc, ra, why) || !(cc == a))
                    {
                      oracle_fail(out, st, D, "copy: " + why, trace.str());
                      stop = true;
                    }
                }
              else if (which == 8 || which == 9)
                {
                  // numeric op= with another array: ranges may differ at every level
                  if (ref_small(ra) && ref_small(rb) && (aop != DIV || ref_no_zero(rb)))
                    {
                      opname = ar_name[aop];
                      trace << "a" << ar_name[aop] << "b; ";
                      bool empty_operand = false, grew_rows = false;
                      Ref expect = ra;
                      ref_arith(expect, aop, rb, empty_operand, grew_rows);
                      if (aop == ADD)
                        a += b;
                      else if (aop == SUB)
                        a -= b;
                      else if (aop == MUL)
                        a *= b;
                      else
                        a /= b;
                      std::string why;
                      if (!check_ref(a, expect, why) && (empty_operand || grew_rows))
                        {
                          // name the class of the failing input, then follow the implementation so that the history can go on
                          if (empty_operand)
                            known_candidate(out, st, "numeric-op-empty-operand", D,
                                            std::string("a") + ar_name[aop]
                                                + "b with an empty operand (array or row) changes the index range of a: " + why,
                                            trace.str());
                          else
                            known_candidate(out, st, "numeric-op-regrown-rows-stale", D,
                                            std::string("a") + ar_name[aop]
                                                + "b growing the range of rows: newly exposed elements are not zero: " + why,
                                            trace.str());
                          ra = ref_from(a);
                        }
                      else
                        ra = expect;
                    }
                }
              else if (which == 10)
                {
                  // checked access outside the range must throw
                  opname = "at-outside";
                  std::vector<int> cc(D, 0);
                  const int lvl = rng.range(0, D - 1);
                  // a valid prefix if there is one, then an index outside
                  const Ref* r = &ra;
                  bool valid = true;
                  for (int d = 0; d < lvl && valid; ++d)
                    {
                      if (r->n() == 0)
                        valid = false;
                      else
                        {
                          cc[d] = r->lo;
                          r = r->dim > 1 ? &r->sub[0] : r;
                        }
                    }
                  cc[lvl] = (valid && r->n() > 0) ? (rng.coin() ? r->hi() + 1 : r->lo - 1) : 1000;
                  bool threw = false;
                  int got_outside = 0;
                  try
                    {
                      const int form = rng.range(0, 3);
                      trace << "at-form " << form << "; ";
                      got_outside = checked_read<D>(a, cc, form);
                    }
                  catch (std::out_of_range&)
                    {
                      threw = true;
                    }
                  ++g_checks;
                  if (a.size_all() <= 400)
                    nd_question<D>(out, a, cc, threw, got_outside);
                  if (!threw)
                    {
                      oracle_fail(out, st, D, "at() outside the range did not throw", trace.str());
                      stop = true;
                    }
                }
              else if (which == 11 || which == 12)
                {
                  // block-owning array (contiguous _allocated_full_data_ptr storage) that the following steps resize
                  opname = "new-block-a";
                  trace << "a=Array(" << box_str(box) << ") numbered; ";
                  construct_block(a, box, out, st, trace.str());
                  ra = Ref(D);
                  ref_resize(ra, box);
                  number_elements(a, ra, 11);
                }
              else if (which == 13)
                {
                  // shrink to a sub-box, then back to the old box: surviving elements keep their values, the others are zero
                  std::vector<int> mn, mx;
                  if (ra.n() > 0 && ref_regular(ra, mn, mx))
                    {
                      opname = "shrink-regrow";
                      Box old(D), sub(D);
                      for (int d = 0; d < D; ++d)
                        {
                          old[d] = std::make_pair(mn[d], mx[d]);
                          const int l = rng.range(mn[d], std::max(mn[d], mx[d]));
                          sub[d] = std::make_pair(l, rng.range(l, std::max(l, mx[d])));
                          if (mx[d] < mn[d])
                            sub[d] = old[d];
                        }
                      trace << "a.resize" << box_str(sub) << "; a.resize" << box_str(old) << "; ";
                      a.resize(make_range<D>(sub));
                      ref_resize(ra, sub);
                      std::string why;
                      if (!check_ref(a, ra, why))
                        {
                          oracle_fail(out, st, D, "after shrinking: " + why, trace.str());
                          stop = true;
                        }
                      a.resize(make_range<D>(old));
                      ref_resize(ra, old);
                    }
                }
              else if (which == 14)
                {
                  // move construction and move assignment; the moved-from object is destroyed before the target is read
                  opname = "move";
                  trace << "m(std::move(copy of b)); a=std::move(m); ";
                  A* tmp = new A(b);
                  A m(std::move(*tmp));
                  ++g_checks;
                  if (tmp->size_all() != 0 || tmp->begin_all() != tmp->end_all())
                    {
                      oracle_fail(out, st, D, "moved-from array is not empty", trace.str());
                      stop = true;
                    }
                  delete tmp;
                  std::string why;
                  if (!check_ref(m, rb, why))
                    {
                      oracle_fail(out, st, D, "move-constructed array: " + why, trace.str());
                      stop = true;
                    }
                  a = std::move(m);
                  ra = rb;
                }
              else if (which == 15)
                {
                  // move of the block-owning b itself into a, b rebuilt afterwards by copy
                  opname = "move-block";
                  trace << "a=std::move(b); b=a; ";
                  a = std::move(b);
                  ra = rb;
                  std::string why;
                  if (!check_ref(a, ra, why))
                    {
                      oracle_fail(out, st, D, "move-assigned array: " + why, trace.str());
                      stop = true;
                    }
                  b = a;
                }
              else if (which == 16)
                {
                  opname = "swap";
                  trace << "swap(a,b); ";
                  swap(a, b);
                  std::swap(ra, rb);
                }
              else if (which == 17)
                {
                  if (ref_small(ra) && (aop != DIV || sc != 0))
                    {
                      opname = "scalar-op";
                      trace << "a" << ar_name[aop] << sc << "; ";
                      if (aop == ADD)
                        a += sc;
                      else if (aop == SUB)
                        a -= sc;
                      else if (aop == MUL)
                        a *= sc;
                      else
                        a /= sc;
                      ref_scalar(ra, aop, sc);
                    }
                }
              else if (which == 18)
                {
                  // binary operator of the numeric base class: c = a op b, operands untouched
                  if (ref_small(ra) && ref_small(rb) && (aop != DIV || ref_no_zero(rb)))
                    {
                      opname = "binary-op";
                      trace << "c=a" << ar_name[aop][0] << "b; ";
                      bool empty_operand = false, grew_rows = false;
                      rc = ra;
                      ref_arith(rc, aop, rb, empty_operand, grew_rows);
                      if (aop == ADD)
                        c = a + b;
                      else if (aop == SUB)
                        c = a - b;
                      else if (aop == MUL)
                        c = a * b;
                      else
                        c = a / b;
                      std::string why;
                      if (!check_ref(c, rc, why))
                        {
                          if (empty_operand)
                            known_candidate(out, st, "numeric-op-empty-operand", D,
                                            std::string("c=a") + ar_name[aop][0]
                                                + "b with an empty operand (array or row) has a larger index range than both: " + why,
                                            trace.str());
                          else
                            {
                              oracle_fail(out, st, D, std::string("c=a") + ar_name[aop][0] + "b: " + why, trace.str());
                              stop = true;
                            }
                          rc = ref_from(c);
                        }
                    }
                }
              else if (which == 19)
                {
                  // make the ranges of a and b agree (so that xapyb/sapyb have compatible operands)
                  opname = "b=a-renumbered";
                  trace << "b=a; b numbered; ";
                  b = a;
                  rb = ra;
                  number_elements(b, rb, 2);
                }
              else if (which == 20 || which == 21)
                {
                  // xapyb / sapyb: equal index ranges at every level, else an error
                  if (ref_small(ra) && ref_small(rb))
                    {
                      const int fa = rng.range(-3, 3), fb = rng.range(-3, 3);
                      const bool compatible = same_shape(ra, rb);
                      bool threw = false;
                      const int variant = rng.range(0, 3);
                      try
                        {
                          if (variant == 0)
                            {
                              opname = "xapyb";
                              trace << "c=a; c.xapyb(a," << fa << ",b," << fb << "); ";
                              c = a;
                              rc = ra;
                              c.xapyb(a, fa, b, fb);
                            }
                          else if (variant == 1)
                            {
                              opname = "sapyb";
                              trace << "a.sapyb(" << fa << ",b," << fb << "); ";
                              a.sapyb(fa, b, fb);
                            }
                          else if (variant == 2)
                            {
                              opname = "xapyb-vec";
                              trace << "c=a; c.xapyb(a,b,b,a); ";
                              c = a;
                              rc = ra;
                              c.xapyb(a, b, b, a);
                            }
                          else
                            {
                              opname = "sapyb-vec";
                              trace << "a.sapyb(b,b,a') ; ";
                              A a2(a);
                              a.sapyb(b, b, a2);
                            }
                        }
                      catch (std::exception&)
                        {
                          threw = true;
                        }
                      ++g_checks;
                      if (threw == compatible)
                        {
                          oracle_fail(out, st, D,
                                      std::string(opname) + (threw ? " reported an error for equal index ranges" : " accepted operands with different index ranges"),
                                      trace.str());
                          stop = true;
                        }
                      else if (compatible)
                        {
                          if (variant == 0)
                            ref_xapyb(rc, ra, fa, rb, fb);
                          else if (variant == 1)
                            {
                              Ref x = ra;
                              ref_xapyb(ra, x, fa, rb, fb);
                            }
                          else if (variant == 2)
                            ref_xapyb_vec(rc, ra, rb, rb, ra);
                          else
                            {
                              Ref x = ra;
                              ref_xapyb_vec(ra, x, rb, rb, x);
                            }
                        }
                      std::string why;
                      if (!stop && (variant == 0 || variant == 2) && !check_ref(c, rc, why))
                        {
                          oracle_fail(out, st, D, std::string(opname) + ": " + why, trace.str());
                          stop = true;
                        }
                    }
                }
              else if (which == 22)
                {
                  // get_index_range / is_regular / get_regular_range against the reference shape
                  opname = "get_index_range";
                  ++g_checks;
                  const IndexRange<D> got = a.get_index_range();
                  const IndexRange<D> want = range_of<D>(ra);
                  std::vector<int> mn, mx;
                  const bool reg = ref_regular(ra, mn, mx);
                  BasicCoordinate<D, int> gmn, gmx;
                  const bool greg = a.get_regular_range(gmn, gmx);
                  std::string what;
                  if (!(got == want) || got != want)
                    what = "get_index_range() differs from the index ranges of the rows";
                  else if (got.size_all() != ref_elems(ra).size())
                    what = "get_index_range().size_all() differs from the number of elements";
                  else if (a.is_regular() != reg || greg != reg)
                    what = std::string("is_regular()/get_regular_range() says ") + (greg ? "regular" : "irregular") + " for "
                           + (reg ? "a regular" : "an irregular") + " array";
                  else if (reg)
                    for (int d = 0; d < D; ++d)
                      if (gmn[d + 1] != mn[d] || gmx[d + 1] != mx[d])
                        what = "get_regular_range() returns a different box";
                  if (!what.empty())
                    {
                      oracle_fail(out, st, D, what, trace.str());
                      stop = true;
                    }
                }
              else if (which == 23)
                {
                  // get_min_indices / next / get of array_index_functions: row-major traversal
                  const ElemList el = ref_elems(ra);
                  if (!el.empty() && !ref_has_empty(ra, /*innermost_only_ok=*/true))
                    {
                      opname = "next";
                      ++g_checks;
                      const bool empties = ref_has_empty(ra);
                      BasicCoordinate<D, int> idx = get_min_indices(a);
                      std::size_t k = 0;
                      std::string what;
                      bool more = true;
                      // with an empty first row get_min_indices itself points nowhere: validate before dereferencing
                      while (more)
                        {
                          std::vector<int> cc(D);
                          for (int d = 0; d < D; ++d)
                            cc[d] = idx[d + 1];
                          if (k >= el.size() || cc != el[k].first)
                            {
                              what = "get_min_indices()/next() yield an index that is not the next element in row-major order (step "
                                     + std::to_string(k) + ")";
                              break;
                            }
                          if (get(a, idx) != el[k].second)
                            {
                              what = "get(a,index) differs from the element";
                              break;
                            }
                          ++k;
                          more = next(idx, a);
                        }
                      if (what.empty() && k != el.size())
                        what = "next() stops after " + std::to_string(k) + " of " + std::to_string(el.size()) + " elements";
                      if (!what.empty())
                        {
                          if (empties)
                            known_candidate(out, st, "next-empty-row", D, what + " (array with an empty innermost row)", trace.str());
                          else
                            {
                              oracle_fail(out, st, D, what, trace.str());
                              stop = true;
                            }
                        }
                    }
                }
              else if (which == 24 || which == 25)
                {
                  // resize one row: the array becomes irregular
                  if (ra.n() > 0)
                    {
                      opname = "row-resize";
                      const int i = rng.range(ra.lo, ra.hi());
                      Box rowbox(box.begin() + 1, box.end());
                      if (rng.coin())
                        {
                          // a small change of the row's own range rather than an unrelated box
                          std::vector<int> mn, mx;
                          if (ref_regular(ra.sub[i - ra.lo], mn, mx) && ra.sub[i - ra.lo].n() > 0)
                            for (int d = 0; d + 1 < D; ++d)
                              rowbox[d] = std::make_pair(mn[d] + rng.range(-1, 1), mx[d] + rng.range(-1, 1));
                        }
                      trace << "a[" << i << "].resize" << box_str(rowbox) << "; ";
                      a[i].resize(make_range<D - 1>(rowbox));
                      ref_resize(ra.sub[i - ra.lo], rowbox);
                    }
                }
              else if (which == 26)
                {
                  // grow (the range must contain the old one)
                  std::vector<int> mn, mx;
                  if (ra.n() > 0 && ref_regular(ra, mn, mx))
                    {
                      opname = "grow";
                      Box g(D);
                      for (int d = 0; d < D; ++d)
                        g[d] = std::make_pair(mn[d] - rng.range(0, 1), std::max(mn[d], mx[d]) + rng.range(0, 1));
                      bool inner_empty = false;
                      for (int d = 0; d < D; ++d)
                        if (mx[d] < mn[d])
                          inner_empty = true;
                      if (!inner_empty)
                        {
                          trace << "a.grow" << box_str(g) << "; ";
                          a.grow(make_range<D>(g));
                          ref_resize(ra, g);
                        }
                    }
                }
              else if (which == 27)
                {
                  // assignment into an array that owns a block / has larger capacity, from an irregular one and back
                  opname = "assign-b=a";
                  trace << "b=a; ";
                  b = a;
                  rb = ra;
                }
            }
          catch (std::exception& e)
            {
              oracle_fail(out, st, D, std::string("unexpected exception ") + e.what(), trace.str());
              break;
            }
          if (*opname)
            ++st.ops[opname];
          if (stop)
            break;
          std::string why;
          if (!check_ref(a, ra, why))
            {
              oracle_fail(out, st, D, "a: " + why, trace.str());
              break;
            }
          if (!check_ref(b, rb, why))
            {
              oracle_fail(out, st, D, "b (not an operand that may change): " + why, trace.str());
              break;
            }
          ++g_checks;
          if ((a == b) != (ra == rb) || (a != b) == (ra == rb))
            {
              oracle_fail(out, st, D, "operator== / != disagrees with contents", trace.str());
              break;
            }
        }
    }
}

// ---------------------------------------------------------------------------------------
// views: an Array constructed on shared memory aliases it exactly until it is resized beyond it
// ---------------------------------------------------------------------------------------
template <int D>
static void
collect_addr(Array<D, int>& a, std::vector<int>& prefix, std::vector<std::pair<std::vector<int>, int*>>& out)
{
  for (int i = a.get_min_index(); i <= a.get_max_index(); ++i)
    {
      prefix.push_back(i);
      collect_addr(a[i], prefix, out);
      prefix.pop_back();
    }
}
template <>
void
collect_addr<1>(Array<1, int>& a, std::vector<int>& prefix, std::vector<std::pair<std::vector<int>, int*>>& out)
{
  for (int i = a.get_min_index(); i <= a.get_max_index(); ++i)
    {
      prefix.push_back(i);
      out.push_back(std::make_pair(prefix, &a[i]));
      prefix.pop_back();
    }
}

static Ref*
ref_row(Ref& r, const std::vector<int>& cc)
{
  Ref* p = &r;
  for (std::size_t d = 0; d + 1 < cc.size(); ++d)
    p = &p->sub[cc[d] - p->lo];
  return p;
}

template <int D>
static void
view_histories(vh::Rng& rng, int cases, FILE* out, NdStats& st)
{
  typedef Array<D, int> A;
  for (int k = 0; k < cases; ++k)
    {
      // the original box of the view and the position of a coordinate in the shared block
      Box obox(D);
      std::vector<int> stride(D, 1);
      int N = 1;
      for (int d = 0; d < D; ++d)
        {
          const int lo = rng.range(-2, 2);
          obox[d] = std::make_pair(lo, lo + rng.range(0, D == 2 ? 4 : 2));
        }
      for (int d = D - 1; d >= 0; --d)
        {
          stride[d] = N;
          N *= obox[d].second - obox[d].first + 1;
        }
      auto pos_of = [&](const std::vector<int>& cc) -> int {
        int p = 0;
        for (int d = 0; d < D; ++d)
          {
            if (cc[d] < obox[d].first || cc[d] > obox[d].second)
              return -1;
            p += (cc[d] - obox[d].first) * stride[d];
          }
        return p;
      };
      shared_ptr<int[]> mem(new int[N]);
      std::vector<int> blk(N);
      for (int i = 0; i < N; ++i)
        blk[i] = mem[i] = 100 + i;
      A v(make_range<D>(obox), mem);
      Ref rv(D);
      ref_resize(rv, obox);
      {
        int x = 100;
        std::function<void(Ref&)> rec = [&](Ref& r) {
          if (r.dim == 1)
            for (int& e : r.val)
              e = x++;
          else
            for (Ref& e : r.sub)
              rec(e);
        };
        rec(rv);
      }
      std::ostringstream trace;
      trace << "view" << box_str(obox) << "; ";
      Box cur = obox;
      // attached: only shrinking resizes so far; detached: a resize grew the innermost dimension, so every row was reallocated
      bool attached = true, detached = false;
      const int nsteps = rng.range(2, 7);
      bool stop = false;
      for (int s = 0; s <= nsteps && !stop; ++s)
        {
          ++st.steps;
          g_current = "view dim=" + std::to_string(D) + " history: " + trace.str() + " <next step>";
          const char* opname = "view-construct";
          if (s > 0)
            {
              const int which = rng.range(0, 9);
              ElemList el = ref_elems(rv);
              if (which <= 1 && !el.empty())
                {
                  opname = "view-write-element";
                  const std::vector<int> cc = el[rng.range(0, static_cast<int>(el.size()) - 1)].first;
                  const int x = rng.range(-50, 50);
                  trace << "v[..]=" << x << "; ";
                  int* p = &v[coord<D>(cc)];
                  v[coord<D>(cc)] = x;
                  Ref* r = ref_row(rv, cc);
                  r->val[cc[D - 1] - r->lo] = x;
                  if (p >= mem.get() && p < mem.get() + N)
                    blk[p - mem.get()] = x; // that it is the right cell is checked below
                }
              else if (which <= 3 && (attached || detached))
                {
                  opname = "view-write-block";
                  const int q = rng.range(0, N - 1);
                  const int x = rng.range(-50, 50);
                  trace << "mem[" << q << "]=" << x << "; ";
                  mem[q] = x;
                  blk[q] = x;
                  if (attached)
                    {
                      // the element of the (possibly shrunk) view at that position, if it is still in the range
                      std::vector<int> cc(D);
                      int rem = q;
                      bool inside = true;
                      for (int d = 0; d < D; ++d)
                        {
                          cc[d] = obox[d].first + rem / stride[d];
                          rem %= stride[d];
                          if (cc[d] < cur[d].first || cc[d] > cur[d].second)
                            inside = false;
                        }
                      if (inside)
                        {
                          Ref* r = ref_row(rv, cc);
                          r->val[cc[D - 1] - r->lo] = x;
                        }
                    }
                }
              else if (which <= 5)
                {
                  opname = "view-shrink";
                  Box sub(D);
                  bool empty = false;
                  for (int d = 0; d < D; ++d)
                    {
                      if (cur[d].second < cur[d].first)
                        empty = true;
                    }
                  if (!empty)
                    {
                      for (int d = 0; d < D; ++d)
                        {
                          const int l = rng.range(cur[d].first, cur[d].second);
                          sub[d] = std::make_pair(l, rng.range(l, cur[d].second));
                        }
                      trace << "v.resize" << box_str(sub) << " (shrink); ";
                      v.resize(make_range<D>(sub));
                      ref_resize(rv, sub);
                      cur = sub;
                    }
                }
              else if (which <= 7)
                {
                  opname = "view-grow";
                  Box g = cur;
                  const int d = rng.range(0, D - 1);
                  bool empty = false;
                  for (int e = 0; e < D; ++e)
                    if (cur[e].second < cur[e].first)
                      empty = true;
                  if (!empty)
                    {
                      if (rng.coin())
                        g[d].second += rng.range(1, 2);
                      else
                        g[d].first -= rng.range(1, 2);
                      trace << "v.resize" << box_str(g) << " (grow dim " << d << "); ";
                      v.resize(make_range<D>(g));
                      ref_resize(rv, g);
                      // growing beyond the original box in the innermost dimension reallocates every row
                      const bool beyond = g[D - 1].first < obox[D - 1].first || g[D - 1].second > obox[D - 1].second;
                      attached = false;
                      if (d == D - 1 && beyond)
                        detached = true;
                      cur = g;
                    }
                }
              else if (which == 8)
                {
                  opname = "view-fill";
                  const int x = rng.range(-9, 9);
                  trace << "v.fill(" << x << "); ";
                  std::vector<std::pair<std::vector<int>, int*>> ad;
                  std::vector<int> prefix;
                  collect_addr(v, prefix, ad);
                  v.fill(x);
                  ref_scalar(rv, MUL, 0);
                  ref_scalar(rv, ADD, x);
                  for (auto& e : ad)
                    if (e.second >= mem.get() && e.second < mem.get() + N)
                      blk[e.second - mem.get()] = x;
                }
              else
                {
                  opname = "view-copy";
                  // a copy of a view owns its storage: writing to it does not reach the block
                  trace << "copy of v written; ";
                  A cp(v);
                  std::vector<std::pair<std::vector<int>, int*>> ad;
                  std::vector<int> prefix;
                  collect_addr(cp, prefix, ad);
                  ++g_checks;
                  for (auto& e : ad)
                    {
                      if (e.second >= mem.get() && e.second < mem.get() + N)
                        {
                          oracle_fail(out, st, D, "view: an element of a copy of a view lies in the shared block", trace.str());
                          stop = true;
                          break;
                        }
                      *e.second = -1234;
                    }
                }
            }
          ++st.ops[opname];
          if (stop)
            break;
          // map semantics
          std::string why;
          if (!check_ref(v, rv, why))
            {
              oracle_fail(out, st, D, "view: " + why, trace.str());
              break;
            }
          // aliasing: an element that lies in the block is the cell at its own position of the original box
          std::vector<std::pair<std::vector<int>, int*>> ad;
          std::vector<int> prefix;
          collect_addr(v, prefix, ad);
          ++g_checks;
          std::string what;
          for (auto& e : ad)
            {
              const bool in_block = e.second >= mem.get() && e.second < mem.get() + N;
              if (in_block && pos_of(e.first) != e.second - mem.get())
                what = "an element of the view aliases a cell of the shared block that is not its own";
              else if (attached && !in_block)
                what = "an element of a view that was never resized beyond its block does not alias the block";
              else if (detached && in_block)
                what = "an element still aliases the shared block after the array was resized beyond it in the innermost dimension";
              if (!what.empty())
                break;
            }
          // the block holds exactly what was written to it (directly or through elements that alias it)
          if (what.empty())
            for (int q = 0; q < N; ++q)
              if (mem[q] != blk[q])
                {
                  // cells re-exposed by a growing resize inside the block are zeroed through the aliasing element
                  bool is_elem = false;
                  for (auto& e : ad)
                    if (e.second == mem.get() + q)
                      is_elem = true;
                  if (is_elem && !attached)
                    blk[q] = mem[q]; // value checked against the reference map above
                  else
                    {
                      what = "cell " + std::to_string(q) + " of the shared block holds " + std::to_string(mem[q]) + ", expected "
                             + std::to_string(blk[q]);
                      break;
                    }
                }
          if (!what.empty())
            {
              oracle_fail(out, st, D, "view: " + what, trace.str());
              break;
            }
        }
    }
}

// 1-D viewing constructors of VectorWithOffset / Array<1>
static void
view1d_checks(vh::Rng& rng, int cases, FILE* out, NdStats& st)
{
  for (int k = 0; k < cases; ++k)
    {
      ++st.steps;
      const int n = rng.range(1, 6), lo = rng.range(-3, 3);
      const int ctor = rng.range(0, 5);
      shared_ptr<int[]> mem(new int[n + 2]);
      for (int i = 0; i < n + 2; ++i)
        mem[i] = 100 + i;
      // cells n, n+1 are guard cells that no constructor is given
      std::ostringstream trace;
      std::unique_ptr<VectorWithOffset<int>> v;
      bool is_view = true, owns = false;
      int vlo = lo;
      static const char* const names[]
          = { "Array<1>(range,sptr)", "VectorWithOffset(min,max,sptr)", "VectorWithOffset(sz,sptr)", "VectorWithOffset(min,max,ptr,end)",
              "VectorWithOffset(sz,ptr,end)", "VectorWithOffset(min,max,const ptr) copying" };
      switch (ctor)
        {
        case 0:
          v.reset(new Array<1, int>(IndexRange<1>(lo, lo + n - 1), mem));
          owns = true;
          break;
        case 1:
          v.reset(new VectorWithOffset<int>(lo, lo + n - 1, mem));
          owns = true;
          break;
        case 2:
          v.reset(new VectorWithOffset<int>(n, mem));
          vlo = 0;
          owns = true;
          break;
#if STIR_VERSION < 070000
        case 3:
          v.reset(new VectorWithOffset<int>(lo, lo + n - 1, mem.get(), mem.get() + n));
          break;
        case 4:
          v.reset(new VectorWithOffset<int>(n, mem.get(), mem.get() + n));
          vlo = 0;
          break;
#endif
        default:
          v.reset(new VectorWithOffset<int>(lo, lo + n - 1, static_cast<const int*>(mem.get())));
          is_view = false;
          owns = true;
          break;
        }
      trace << names[ctor] << " n=" << n << " lo=" << vlo << "; ";
      g_current = "1-D view: " + trace.str() + " <shrink / set_offset / resize beyond>";
      ++st.ops[std::string("view1d:") + names[ctor]];
      ++g_checks;
      std::string what;
      if (v->get_min_index() != vlo || v->get_max_index() != vlo + n - 1 || static_cast<int>(v->size()) != n)
        what = "index range is not the requested one";
      for (int i = 0; i < n && what.empty(); ++i)
        {
          if ((*v)[vlo + i] != 100 + i)
            what = "element differs from the data";
          else if (is_view != (&(*v)[vlo + i] == mem.get() + i))
            what = is_view ? "viewing constructor does not alias the data" : "copying constructor aliases the data";
        }
      if (what.empty() && v->owns_memory_for_data() != owns)
        what = "owns_memory_for_data() is wrong";
      if (what.empty())
        {
          // write through both ways
          (*v)[vlo] = -5;
          if (is_view ? mem[0] != -5 : mem[0] != 100)
            what = is_view ? "a write to the view does not reach the data" : "a write to a copy reaches the data";
          mem[n - 1] = -6;
          const int want_last = is_view ? -6 : (n == 1 ? -5 : 100 + n - 1);
          if (what.empty() && (*v)[vlo + n - 1] != want_last)
            what = is_view ? "a write to the data is not seen by the view" : "a write to the data is seen by a copy";
        }
      if (what.empty() && is_view)
        {
          // shrink within the data, shift, then regrow beyond it: surviving values kept, data untouched afterwards
          const int a = rng.range(0, n - 1), b = rng.range(a, n - 1);
          trace << "resize(" << vlo + a << "," << vlo + b << "); ";
          v->resize(vlo + a, vlo + b);
          for (int i = a; i <= b && what.empty(); ++i)
            if (&(*v)[vlo + i] != mem.get() + i)
              what = "after shrinking within the data an element no longer aliases its cell";
          if (what.empty() && rng.coin())
            {
              const int off = rng.range(-2, 2);
              trace << "set_offset(" << off << "); ";
              v->set_offset(off);
              for (int i = a; i <= b && what.empty(); ++i)
                if (&(*v)[off + i - a] != mem.get() + i)
                  what = "after set_offset an element no longer aliases its cell";
              v->set_offset(vlo + a);
            }
          std::vector<int> before(mem.get(), mem.get() + n + 2);
          if (what.empty())
            {
              const int hi = vlo + n + rng.range(0, 1); // beyond the data (the guard cells are not part of it)
              trace << "resize(" << vlo + a << "," << hi << "); ";
              v->resize(vlo + a, hi);
              for (int i = a; i <= b && what.empty(); ++i)
                if ((*v)[vlo + i] != before[i])
                  what = "resize beyond the data lost a value";
              for (int i = vlo + a; i <= hi && what.empty(); ++i)
                {
                  if (&(*v)[i] >= mem.get() && &(*v)[i] < mem.get() + n + 2)
                    what = "after a resize beyond the data an element still lies in it";
                  (*v)[i] = -77;
                }
              for (int i = 0; i < n + 2 && what.empty(); ++i)
                if (mem[i] != before[i])
                  what = "resize beyond the data (or a write after it) changed the data or the cells behind it";
            }
        }
      if (!what.empty())
        oracle_fail(out, st, 1, "1-D view: " + what, trace.str());
    }
}

// NumericVectorWithOffset<int,int> used directly (not through Array<1>): its operators grow with the
// base-class grow(); "elements newly exposed by growing a numeric array are zero"
static void
numvec_checks(vh::Rng& rng, int cases, FILE* out, NdStats& st)
{
  typedef NumericVectorWithOffset<int, int> NV;
  bool reported = false;
  for (int k = 0; k < cases; ++k)
    {
      ++st.steps;
      ++g_checks;
      const int lo1 = rng.range(-3, 3), n1 = rng.range(1, 4), lo2 = rng.range(-3, 3), n2 = rng.range(1, 4);
      Array<1, int> x(lo1, lo1 + n1 - 1), y(lo2, lo2 + n2 - 1);
      x.fill(rng.range(1, 9));
      y.fill(rng.range(1, 9));
      // + and - only: with an indeterminate element * and / could overflow
      const ArOp aop = static_cast<ArOp>(rng.range(0, 1));
      const NV nx(x), ny(y);
      NV z = aop == ADD ? nx + ny : nx - ny;
      ++st.ops["numvec-binary-op"];
      Ref rx = ref_from(x), ry = ref_from(y);
      bool e = false, g = false;
      ref_arith(rx, aop, ry, e, g);
      bool ok = z.get_min_index() == rx.lo && z.get_max_index() == rx.hi();
      for (int i = rx.lo; ok && i <= rx.hi(); ++i)
        ok = z[i] == rx.val[i - rx.lo];
      if (!ok && !reported)
        {
          reported = true;
          std::ostringstream t;
          t << "x=[" << lo1 << ".." << lo1 + n1 - 1 << "] y=[" << lo2 << ".." << lo2 + n2 - 1 << "] z = x " << ar_name[aop][0] << " y";
          known_candidate(out, st, "numeric-vector-of-int-grow-uninitialised", 1,
                          "NumericVectorWithOffset<int,int> operator on different ranges: newly exposed elements are not zero (indeterminate)",
                          t.str());
        }
    }
}

// move construction / swap of the 1-D classes: the target has the source's map, the source is left empty, and the
// target stays valid after the source is destroyed
static void
move1d_checks(vh::Rng& rng, int cases, FILE* out, NdStats& st)
{
  for (int k = 0; k < cases; ++k)
    {
      ++st.steps;
      ++g_checks;
      const int lo = rng.range(-3, 3), n = rng.range(0, 5);
      Array<1, int> x(lo, lo + n - 1);
      for (int i = lo; i < lo + n; ++i)
        x[i] = 10 + i;
      if (n > 1 && rng.coin())
        x.resize(lo + 1, lo + n - 1); // num + start in the middle of the allocation
      const Ref rx = ref_from(x);
      g_current = "1-D move of a vector with " + std::to_string(n) + " elements from " + std::to_string(lo);
      std::string what, why;
      const int kind = rng.range(0, 3);
      if (kind == 0)
        {
          ++st.ops["move1d:Array<1>"];
          Array<1, int>* t = new Array<1, int>(x);
          Array<1, int> m(std::move(*t));
          if (t->size() != 0 || t->begin() != t->end())
            what = "moved-from Array<1> is not empty";
          delete t;
          if (what.empty() && (!check_ref(m, rx, why) || !(m == x)))
            what = "move-constructed Array<1>: " + why;
        }
      else if (kind == 1)
        {
          ++st.ops["move1d:VectorWithOffset"];
          VectorWithOffset<int>* t = new VectorWithOffset<int>(x);
          VectorWithOffset<int> m(std::move(*t));
          if (t->size() != 0)
            what = "moved-from VectorWithOffset is not empty";
          delete t;
          if (what.empty() && !(m == x))
            what = "move-constructed VectorWithOffset differs from the source";
        }
      else if (kind == 2)
        {
          ++st.ops["move1d:NumericVectorWithOffset"];
          typedef NumericVectorWithOffset<int, int> NV;
          NV* t = new NV(x);
          NV m(std::move(*t));
          if (t->size() != 0)
            what = "moved-from NumericVectorWithOffset is not empty";
          delete t;
          if (what.empty() && !(m == x))
            what = "move-constructed NumericVectorWithOffset differs from the source";
        }
      else
        {
          ++st.ops["move1d:swap"];
          Array<1, int> y(x), z(lo - 1, lo + 1);
          z.fill(4);
          const Ref rz = ref_from(z);
          swap(y, z);
          if (!check_ref(y, rz, why) || !check_ref(z, rx, why))
            what = "swap of two Array<1>: " + why;
        }
      if (!what.empty())
        oracle_fail(out, st, 1, what, g_current);
    }
}

// empty index ranges given to constructors: an array without elements equals every other array without elements of the same outer range
static void
empty_range_checks(vh::Rng& rng, int cases, FILE* out, NdStats& st)
{
  bool reported = false;
  for (int k = 0; k < cases; ++k)
    {
      ++st.steps;
      ++g_checks;
      ++st.ops["empty-range-ctor"];
      const int lo = rng.range(-3, 3), n0 = rng.range(1, 3);
      // block-owning 2-D array with empty rows whose (empty) range does not start at 0, against the same range reached by resize
      Array<2, int> a(IndexRange2D(0, n0 - 1, lo, lo - 1));
      Array<2, int> b;
      b.resize(IndexRange2D(0, n0 - 1, lo, lo - 1));
      shared_ptr<int[]> mem(new int[1]);
      Array<1, int> v(IndexRange<1>(lo, lo - 1), mem);
      Array<1, int> e;
      std::string what;
      if (a.size_all() != 0 || b.size_all() != 0 || v.size() != 0)
        what = "array constructed on an empty range has elements";
      else if (!(a == b) || a.get_index_range() != b.get_index_range())
        what = "Array<2>(range with empty rows) differs from an array resized to the same range";
      else if (!(v == e))
        what = "Array<1>(empty range, data) differs from an empty Array<1>";
      if (!what.empty() && !reported && lo != 0)
        {
          reported = true;
          std::ostringstream t;
          t << "rows " << lo << ":" << lo - 1;
          known_candidate(out, st, "empty-range-min-index-kept", 2, what, t.str());
        }
      else if (!what.empty() && lo == 0)
        oracle_fail(out, st, 2, what, "rows 0:-1");
    }
}

// irregular arrays: inner rows resized individually; is_contiguous(), copy_to / fill_from, get_full_data_ptr
// must agree with the actual element addresses and with row-major order
static long
irregular_checks(vh::Rng& rng, int n, FILE* out, long& steps)
{
  long fails = 0;
  for (int k = 0; k < n; ++k)
    {
      const int n0 = rng.range(2, 4), n1 = rng.range(2, 5);
      const int lo0 = rng.range(-2, 1), lo1 = rng.range(-2, 1);
      const bool view = rng.coin();
      shared_ptr<int[]> mem(new int[n0 * n1]);
      IndexRange2D range(lo0, lo0 + n0 - 1, lo1, lo1 + n1 - 1);
      Array<2, int> a = view ? Array<2, int>(range, mem) : Array<2, int>(range);
      RefMap ref;
      int val = 1;
      for (int i = lo0; i < lo0 + n0; ++i)
        for (int j = lo1; j < lo1 + n1; ++j)
          {
            a[i][j] = val;
            ref[{ i, j }] = val;
            ++val;
          }
      std::ostringstream trace;
      trace << (view ? "view " : "own ") << n0 << "x" << n1 << "; ";
      const int nops = rng.range(1, 3);
      for (int op = 0; op <= nops; ++op)
        {
          ++steps;
          if (op > 0)
            {
              // shrink / shift one inner row (never growing beyond its storage when viewing shared memory is not required)
              const int i = rng.range(lo0, lo0 + n0 - 1);
              const int rlo = a[i].get_min_index(), rhi = a[i].get_max_index();
              int nlo = rlo + rng.range(0, 1), nhi = rhi - rng.range(0, 2);
              if (rng.range(0, 4) == 0)
                nhi = rhi + 1; // grow at the high end
              trace << "a[" << i << "].resize(" << nlo << "," << nhi << "); ";
              a[i].resize(nlo, nhi);
              RefMap nr;
              for (auto& kv : ref)
                if (kv.first[0] != i)
                  nr[kv.first] = kv.second;
              for (int j = nlo; j <= nhi; ++j)
                {
                  RefMap::const_iterator it = ref.find({ i, j });
                  nr[{ i, j }] = it == ref.end() ? 0 : it->second;
                }
              ref.swap(nr);
            }
          std::string why;
          if (!check_against(a, ref, why))
            {
              ++fails;
              std::fprintf(out, "ORACLE-FAIL irregular: %s | history: %s\n", why.c_str(), trace.str().c_str());
              break;
            }
          if (ref.empty())
            continue;
          // ground truth for contiguity: addresses of the elements in row-major order
          bool contiguous = true;
          const int* prev = nullptr;
          for (int i = a.get_min_index(); i <= a.get_max_index(); ++i)
            for (int j = a[i].get_min_index(); j <= a[i].get_max_index(); ++j)
              {
                const int* p = &a[i][j];
                if (prev && p != prev + 1)
                  contiguous = false;
                prev = p;
              }
          bool has_empty_row = false;
          for (int i = a.get_min_index(); i <= a.get_max_index(); ++i)
            if (a[i].size() == 0)
              has_empty_row = true;
          // is_contiguous() may only say yes if the elements really are contiguous; it must say yes for
          // contiguous arrays without empty rows (with an empty row a conservative 'no' is acceptable)
          const bool reported = a.is_contiguous();
          if ((reported && !contiguous) || (!reported && contiguous && !has_empty_row))
            {
              ++fails;
              std::fprintf(out, "ORACLE-FAIL irregular: is_contiguous()=%d but element addresses say %d | history: %s\n", a.is_contiguous() ? 1 : 0,
                           contiguous ? 1 : 0, trace.str().c_str());
              break;
            }
          // copy_to delivers exactly the elements in row-major order
          std::vector<int> got(ref.size() + 4, -777);
          copy_to(a, got.begin());
          bool ok = true;
          std::size_t pos = 0;
          for (auto& kv : ref)
            ok = ok && got[pos++] == kv.second;
          ok = ok && got[ref.size()] == -777;
          if (!ok)
            {
              ++fails;
              std::fprintf(out, "ORACLE-FAIL irregular: copy_to does not deliver the elements in row-major order | history: %s\n", trace.str().c_str());
              break;
            }
          // fill_from writes exactly the elements, in row-major order, and nothing else
          std::vector<int> src(ref.size());
          for (std::size_t q = 0; q < src.size(); ++q)
            src[q] = 5000 + static_cast<int>(q) + 17 * op;
          std::vector<int> guard;
          if (view)
            guard.assign(mem.get(), mem.get() + n0 * n1);
          fill_from(a, src.begin(), src.end());
          pos = 0;
          for (auto& kv : ref)
            kv.second = src[pos++];
          if (!check_against(a, ref, why))
            {
              ++fails;
              std::fprintf(out, "ORACLE-FAIL irregular: after fill_from: %s | history: %s\n", why.c_str(), trace.str().c_str());
              break;
            }
          if (view)
            {
              // cells of the shared block that are not elements of the array must be untouched
              std::set<const int*> elems;
              for (int i = a.get_min_index(); i <= a.get_max_index(); ++i)
                for (int j = a[i].get_min_index(); j <= a[i].get_max_index(); ++j)
                  elems.insert(&a[i][j]);
              for (int q = 0; q < n0 * n1; ++q)
                if (!elems.count(mem.get() + q) && mem[q] != guard[q])
                  ok = false;
              if (!ok)
                {
                  ++fails;
                  std::fprintf(out, "ORACLE-FAIL irregular: fill_from wrote to a cell that is not an element of the array | history: %s\n", trace.str().c_str());
                  break;
                }
            }
          // get_full_data_ptr: error for non-contiguous arrays, row-major view otherwise
          bool threw = false;
          try
            {
              int* fp = a.get_full_data_ptr();
              pos = 0;
              for (auto& kv : ref)
                ok = ok && fp[pos++] == kv.second;
              a.release_full_data_ptr();
            }
          catch (std::exception&)
            {
              threw = true;
              a.release_full_data_ptr();
            }
          if (threw == reported || !ok)
            {
              ++fails;
              std::fprintf(out, "ORACLE-FAIL irregular: get_full_data_ptr %s for a %s array | history: %s\n", threw ? "reported an error" : "returned a pointer",
                           reported ? "contiguous" : "non-contiguous", trace.str().c_str());
              break;
            }
        }
    }
  return fails;
}

int
main(int argc, char** argv)
{
  if (argc >= 4 && std::string(argv[1]) == "exec")
    return run_exec(argv[2], argv[3]);
  if (argc >= 6 && std::string(argv[1]) == "nd")
    {
      vh::Rng rng(std::strtoull(argv[2], nullptr, 10) * 7919ULL + 11);
      const int histories = std::atoi(argv[3]);
      const int len = std::atoi(argv[4]);
      FILE* out = std::fopen(argv[5], "w");
#if defined(__SANITIZE_ADDRESS__)
      __sanitizer_set_death_callback(on_sanitizer_death);
#endif
      NdStats st;
      nd_histories<2>(rng, histories, len, out, st);
      nd_histories<3>(rng, histories / 2 + 1, len, out, st);
      nd_histories<4>(rng, histories / 4 + 1, len, out, st);
      view_histories<2>(rng, histories, out, st);
      view_histories<3>(rng, histories / 2 + 1, out, st);
      view_histories<4>(rng, histories / 4 + 1, out, st);
      view1d_checks(rng, histories, out, st);
      numvec_checks(rng, histories / 4 + 1, out, st);
      move1d_checks(rng, histories / 2 + 1, out, st);
      empty_range_checks(rng, histories / 10 + 1, out, st);
      {
        long steps = 0;
        g_current = "irregular 2-D arrays";
        const long f = irregular_checks(rng, histories, out, steps);
        st.steps += steps;
        st.fails += f;
        st.ops["irregular-2d"] += steps;
        g_checks += 5 * steps;
      }
      std::fprintf(out, "ND-OPS");
      for (auto& kv : st.ops)
        {
          std::string name = kv.first;
          for (char& ch : name)
            if (ch == ' ')
              ch = '_';
          std::fprintf(out, " %s=%ld", name.c_str(), kv.second);
        }
      std::fprintf(out, "\n");
      std::fprintf(out, "ND-DONE steps=%ld fails=%ld known=%ld\n", st.steps, st.fails, st.known);
      std::fprintf(out, "ORACLE-DONE checks=%ld fails=%ld\n", g_checks, st.fails + st.known);
      std::fclose(out);
      return st.fails ? 1 : 0;
    }
  std::fprintf(stderr, "usage: c11_arrays exec <ops> <out> | nd <seed> <histories> <len> <out>\n");
  return 2;
}
