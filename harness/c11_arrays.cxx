// C11 — implementation side: executes a history of array operations on the real
// stir::Array<1,int> / VectorWithOffset<int> / NumericVectorWithOffset (header-only code,
// compiled here with AddressSanitizer + UBSan) and prints the observable state after every step.
//
//   c11_arrays exec <opsfile> <outfile>     line protocol (see lean/Driver/C11.lean)
//   c11_arrays nd <seed> <histories> <len> <outfile>   N-dim arrays vs reference maps (oracle)
//
// Every output line is flushed before the next operation runs, so that after a sanitizer
// abort the last line of <outfile> identifies the operation that aborted.
#include "stir/Array.h"
#include "stir/IndexRange.h"
#include "stir/IndexRange2D.h"
#include "stir/IndexRange3D.h"
#include "stir/VectorWithOffset.h"
#include "stir/shared_ptr.h"
#include "stir/copy_fill.h"
#include "common.h"
#include <map>
#include <set>
#include <functional>
#include <memory>
#include <stdexcept>

using namespace stir;
typedef Array<1, int> A1;

static std::string
dump(const A1& a)
{
  std::ostringstream s;
  s << a.get_min_index() << "," << a.get_max_index() << ":[";
  bool first = true;
  for (A1::const_iterator it = a.begin(); it != a.end(); ++it)
    {
      if (!first)
        s << " ";
      first = false;
      s << *it;
    }
  s << "]";
  return s.str();
}

static int
run_exec(const char* opsfile, const char* outfile)
{
  std::ifstream in(opsfile);
  FILE* out = std::fopen(outfile, "w");
  if (!in || !out)
    return 2;
  std::unique_ptr<A1> r[3];
  for (auto& p : r)
    p.reset(new A1);
  std::string line;
  while (std::getline(in, line))
    {
      const std::vector<std::string> t = vh::split(line);
      if (t.empty())
        continue;
      // announce the operation before running it (for post-mortem of sanitizer aborts)
      std::string res = "ok";
      const std::string& op = t[0];
      auto I = [&](int k) { return std::atoi(t.at(k).c_str()); };
      if (op == "reset")
        {
          for (auto& p : r)
            p.reset(new A1);
          std::fprintf(out, "reset\n");
          std::fflush(out);
          continue;
        }
      std::fprintf(out, "@%s\n", line.c_str());
      std::fflush(out);
      try
        {
          if (op == "resize")
            r[I(1)]->resize(I(2), I(3));
          else if (op == "grow")
            r[I(1)]->grow(I(2), I(3));
          else if (op == "reserve")
            r[I(1)]->reserve(I(2), I(3));
          else if (op == "setoff")
            r[I(1)]->set_offset(I(2));
          else if (op == "assign")
            *r[I(1)] = *r[I(2)];
          else if (op == "fill")
            r[I(1)]->fill(I(2));
          else if (op == "set")
            {
              try
                {
                  r[I(1)]->at(I(2)) = I(3);
                }
              catch (std::out_of_range&)
                {
                  res = "err";
                }
            }
          else if (op == "get")
            {
              try
                {
                  const A1& c = *r[I(1)];
                  res = "val:" + std::to_string(c.at(I(2)));
                }
              catch (std::out_of_range&)
                {
                  res = "err";
                }
            }
          else if (op == "add")
            *r[I(1)] += *r[I(2)];
          else if (op == "badd")
            {
              try
                {
                  r[I(1)]->VectorWithOffset<int>::operator+=(*r[I(2)]);
                }
              catch (std::exception&)
                {
                  res = "err";
                }
            }
          else if (op == "recycle")
            r[I(1)]->recycle();
          else if (op == "eq")
            res = (*r[I(1)] == *r[I(2)]) ? "bool:1" : "bool:0";
          else
            res = "bad-op";
        }
      catch (std::exception& e)
        {
          res = std::string("exception:") + e.what();
        }
      std::fprintf(out, "%s r0=%s r1=%s r2=%s\n", res.c_str(), dump(*r[0]).c_str(), dump(*r[1]).c_str(), dump(*r[2]).c_str());
      std::fflush(out);
    }
  std::fclose(out);
  return 0;
}

// ---------------------------------------------------------------------------------------
// N-dimensional oracle: random histories on Array<2,int>/Array<3,int> against a reference
// std::map<coords,int>; checks after every step: index ranges, every element, size_all,
// full iteration order (row-major, each element once), views aliasing shared memory.
// ---------------------------------------------------------------------------------------
typedef std::map<std::vector<int>, int> RefMap;

template <int D>
static void
collect(const Array<D, int>& a, std::vector<int>& prefix, std::vector<std::pair<std::vector<int>, int>>& out)
{
  for (int i = a.get_min_index(); i <= a.get_max_index(); ++i)
    {
      prefix.push_back(i);
      collect(a[i], prefix, out);
      prefix.pop_back();
    }
}
template <>
void
collect<1>(const Array<1, int>& a, std::vector<int>& prefix, std::vector<std::pair<std::vector<int>, int>>& out)
{
  for (int i = a.get_min_index(); i <= a.get_max_index(); ++i)
    {
      prefix.push_back(i);
      out.push_back(std::make_pair(prefix, a[i]));
      prefix.pop_back();
    }
}

template <int D>
static bool
check_against(const Array<D, int>& a, const RefMap& ref, std::string& why)
{
  std::vector<std::pair<std::vector<int>, int>> elems;
  std::vector<int> prefix;
  collect(a, prefix, elems);
  if (elems.size() != ref.size())
    {
      why = "size " + std::to_string(elems.size()) + " vs reference " + std::to_string(ref.size());
      return false;
    }
  if (a.size_all() != ref.size())
    {
      why = "size_all() " + std::to_string(a.size_all()) + " vs reference " + std::to_string(ref.size());
      return false;
    }
  // nested-index traversal is lexicographic = std::map order; begin_all must visit the same sequence
  typename Array<D, int>::const_full_iterator fit = a.begin_all_const();
  RefMap::const_iterator rit = ref.begin();
  for (std::size_t k = 0; k < elems.size(); ++k, ++rit)
    {
      if (elems[k].first != rit->first || elems[k].second != rit->second)
        {
          why = "element " + std::to_string(k) + " differs from reference (value " + std::to_string(elems[k].second) + " vs "
                + std::to_string(rit->second) + ")";
          return false;
        }
      if (fit == a.end_all_const())
        {
          why = "full iteration ended early at " + std::to_string(k);
          return false;
        }
      if (*fit != elems[k].second)
        {
          why = "full iteration not row-major at position " + std::to_string(k);
          return false;
        }
      ++fit;
    }
  if (fit != a.end_all_const())
    {
      why = "full iteration visits more than size_all elements";
      return false;
    }
  return true;
}

static void
ref_resize(RefMap& ref, const std::vector<std::pair<int, int>>& box)
{
  // new map: all coords in box; value = old value if present else 0
  RefMap n;
  std::vector<int> c(box.size());
  std::function<void(std::size_t)> rec = [&](std::size_t d) {
    if (d == box.size())
      {
        RefMap::const_iterator it = ref.find(c);
        n[c] = it == ref.end() ? 0 : it->second;
        return;
      }
    for (int i = box[d].first; i <= box[d].second; ++i)
      {
        c[d] = i;
        rec(d + 1);
      }
  };
  bool empty = false;
  for (auto& b : box)
    if (b.second < b.first)
      empty = true;
  if (!empty)
    rec(0);
  ref.swap(n);
}

template <int D>
static IndexRange<D> make_range(const std::vector<std::pair<int, int>>& box);
template <>
IndexRange<2>
make_range<2>(const std::vector<std::pair<int, int>>& b)
{
  return IndexRange2D(b[0].first, b[0].second, b[1].first, b[1].second);
}
template <>
IndexRange<3>
make_range<3>(const std::vector<std::pair<int, int>>& b)
{
  return IndexRange3D(b[0].first, b[0].second, b[1].first, b[1].second, b[2].first, b[2].second);
}

template <int D>
static BasicCoordinate<D, int>
coord(const std::vector<int>& c)
{
  BasicCoordinate<D, int> r;
  for (int d = 1; d <= D; ++d)
    r[d] = c[d - 1];
  return r;
}

template <int D>
static long
nd_histories(vh::Rng& rng, int histories, int len, FILE* out, long& steps)
{
  long fails = 0;
  for (int h = 0; h < histories; ++h)
    {
      Array<D, int> a, b;
      RefMap ra, rb;
      std::ostringstream trace;
      for (int s = 0; s < len; ++s)
        {
          ++steps;
          const int which = rng.range(0, 9);
          std::vector<std::pair<int, int>> box(D);
          for (int d = 0; d < D; ++d)
            {
              const int lo = rng.range(-3, 3);
              box[d] = std::make_pair(lo, lo + rng.range(-1, 3));
            }
          bool any_empty = false;
          for (auto& bx : box)
            if (bx.second < bx.first)
              any_empty = true;
          if (any_empty && D > 1)
            { // regular empty range: make the outer dimension empty
              box[0].second = box[0].first - 1;
            }
          try
            {
              if (which <= 2)
                {
                  trace << "resize a";
                  for (auto& bx : box)
                    trace << " " << bx.first << ":" << bx.second;
                  trace << "; ";
                  a.resize(make_range<D>(box));
                  ref_resize(ra, box);
                }
              else if (which == 3)
                {
                  trace << "new b";
                  for (auto& bx : box)
                    trace << " " << bx.first << ":" << bx.second;
                  trace << "; ";
                  b = Array<D, int>(make_range<D>(box));
                  rb.clear();
                  ref_resize(rb, box);
                  int v = 1;
                  for (auto& kv : rb)
                    {
                      kv.second = v;
                      b[coord<D>(kv.first)] = v;
                      ++v;
                    }
                }
              else if (which == 4)
                {
                  trace << "a=b; ";
                  a = b;
                  ra = rb;
                }
              else if (which == 5)
                {
                  const int v = rng.range(-5, 5);
                  trace << "fill a " << v << "; ";
                  a.fill(v);
                  for (auto& kv : ra)
                    kv.second = v;
                }
              else if (which == 6 && !ra.empty())
                {
                  RefMap::iterator it = ra.begin();
                  std::advance(it, rng.range(0, static_cast<int>(ra.size()) - 1));
                  const int v = rng.range(-9, 9);
                  trace << "set a; ";
                  a.at(coord<D>(it->first)) = v;
                  it->second = v;
                }
              else if (which == 7)
                {
                  trace << "copy-construct; ";
                  Array<D, int> c(a);
                  std::string why;
                  if (!check_against(c, ra, why) || !(c == a))
                    {
                      ++fails;
                      std::fprintf(out, "ORACLE-FAIL dim=%d copy: %s | history: %s\n", D, why.c_str(), trace.str().c_str());
                    }
                }
              else if (which == 8)
                {
                  // same index range required by Array<N>::operator+= (else it grows); use a+=a-copy
                  trace << "a+=copy(a); ";
                  Array<D, int> c(a);
                  a += c;
                  for (auto& kv : ra)
                    kv.second *= 2;
                }
              else if (which == 9)
                {
                  // checked access outside the range must throw
                  std::vector<int> c(D, 0);
                  c[0] = 1000;
                  bool threw = false;
                  try
                    {
                      (void)a.at(coord<D>(c));
                    }
                  catch (std::out_of_range&)
                    {
                      threw = true;
                    }
                  if (!threw)
                    {
                      ++fails;
                      std::fprintf(out, "ORACLE-FAIL dim=%d at() outside range did not throw | history: %s\n", D, trace.str().c_str());
                    }
                }
            }
          catch (std::exception& e)
            {
              ++fails;
              std::fprintf(out, "ORACLE-FAIL dim=%d unexpected exception %s | history: %s\n", D, e.what(), trace.str().c_str());
              break;
            }
          std::string why;
          if (!check_against(a, ra, why))
            {
              ++fails;
              std::fprintf(out, "ORACLE-FAIL dim=%d %s | history: %s\n", D, why.c_str(), trace.str().c_str());
              break;
            }
          if ((a == b) != (ra == rb))
            {
              ++fails;
              std::fprintf(out, "ORACLE-FAIL dim=%d operator== disagrees with contents | history: %s\n", D, trace.str().c_str());
              break;
            }
        }
    }
  return fails;
}

// views: an Array constructed on shared memory aliases it exactly until resized beyond it
static long
view_checks(vh::Rng& rng, int n, FILE* out, long& steps)
{
  long fails = 0;
  for (int k = 0; k < n; ++k)
    {
      ++steps;
      const int n0 = rng.range(1, 4), n1 = rng.range(1, 5);
      const int lo0 = rng.range(-2, 2), lo1 = rng.range(-2, 2);
      shared_ptr<int[]> mem(new int[n0 * n1]);
      for (int i = 0; i < n0 * n1; ++i)
        mem[i] = 100 + i;
      IndexRange2D range(lo0, lo0 + n0 - 1, lo1, lo1 + n1 - 1);
      Array<2, int> v(range, mem);
      bool ok = v.is_contiguous();
      // aliasing both ways, row-major
      for (int i = 0; i < n0 && ok; ++i)
        for (int j = 0; j < n1 && ok; ++j)
          ok = (&v[lo0 + i][lo1 + j] == &mem[i * n1 + j]);
      v[lo0][lo1] = -7;
      ok = ok && mem[0] == -7;
      mem[n0 * n1 - 1] = -9;
      ok = ok && v[lo0 + n0 - 1][lo1 + n1 - 1] == -9;
      if (!ok)
        {
          ++fails;
          std::fprintf(out, "ORACLE-FAIL view does not alias shared memory exactly n0=%d n1=%d\n", n0, n1);
          continue;
        }
      // shrink within: still aliasing; grow beyond: detached, old values kept, new zero
      Array<2, int> w(range, mem);
      w.resize(IndexRange2D(lo0, lo0 + n0 - 1, lo1, lo1 + n1)); // one more column
      bool ok2 = true;
      for (int i = 0; i < n0 && ok2; ++i)
        {
          for (int j = 0; j < n1 && ok2; ++j)
            ok2 = w[lo0 + i][lo1 + j] == mem[i * n1 + j];
          ok2 = ok2 && w[lo0 + i][lo1 + n1] == 0;
        }
      const int before = mem[0];
      w[lo0][lo1] = before + 1;
      // after growing beyond the shared block the rows must no longer write through to it
      // (each row reallocated), i.e. memory outside the block was never touched (ASan) and
      // the map semantics hold
      if (!ok2)
        {
          ++fails;
          std::fprintf(out, "ORACLE-FAIL view resize beyond shared block lost values n0=%d n1=%d\n", n0, n1);
        }
    }
  return fails;
}

// irregular arrays: inner rows resized individually; is_contiguous(), copy_to / fill_from, get_full_data_ptr
// must agree with the actual element addresses and with row-major order
static long
irregular_checks(vh::Rng& rng, int n, FILE* out, long& steps)
{
  long fails = 0;
  for (int k = 0; k < n; ++k)
    {
      const int n0 = rng.range(2, 4), n1 = rng.range(2, 5);
      const int lo0 = rng.range(-2, 1), lo1 = rng.range(-2, 1);
      const bool view = rng.coin();
      shared_ptr<int[]> mem(new int[n0 * n1]);
      IndexRange2D range(lo0, lo0 + n0 - 1, lo1, lo1 + n1 - 1);
      Array<2, int> a = view ? Array<2, int>(range, mem) : Array<2, int>(range);
      RefMap ref;
      int val = 1;
      for (int i = lo0; i < lo0 + n0; ++i)
        for (int j = lo1; j < lo1 + n1; ++j)
          {
            a[i][j] = val;
            ref[{ i, j }] = val;
            ++val;
          }
      std::ostringstream trace;
      trace << (view ? "view " : "own ") << n0 << "x" << n1 << "; ";
      const int nops = rng.range(1, 3);
      for (int op = 0; op <= nops; ++op)
        {
          ++steps;
          if (op > 0)
            {
              // shrink / shift one inner row (never growing beyond its storage when viewing shared memory is not required)
              const int i = rng.range(lo0, lo0 + n0 - 1);
              const int rlo = a[i].get_min_index(), rhi = a[i].get_max_index();
              int nlo = rlo + rng.range(0, 1), nhi = rhi - rng.range(0, 2);
              if (rng.range(0, 4) == 0)
                nhi = rhi + 1; // grow at the high end
              trace << "a[" << i << "].resize(" << nlo << "," << nhi << "); ";
              a[i].resize(nlo, nhi);
              RefMap nr;
              for (auto& kv : ref)
                if (kv.first[0] != i)
                  nr[kv.first] = kv.second;
              for (int j = nlo; j <= nhi; ++j)
                {
                  RefMap::const_iterator it = ref.find({ i, j });
                  nr[{ i, j }] = it == ref.end() ? 0 : it->second;
                }
              ref.swap(nr);
            }
          std::string why;
          if (!check_against(a, ref, why))
            {
              ++fails;
              std::fprintf(out, "ORACLE-FAIL irregular: %s | history: %s\n", why.c_str(), trace.str().c_str());
              break;
            }
          if (ref.empty())
            continue;
          // ground truth for contiguity: addresses of the elements in row-major order
          bool contiguous = true;
          const int* prev = nullptr;
          for (int i = a.get_min_index(); i <= a.get_max_index(); ++i)
            for (int j = a[i].get_min_index(); j <= a[i].get_max_index(); ++j)
              {
                const int* p = &a[i][j];
                if (prev && p != prev + 1)
                  contiguous = false;
                prev = p;
              }
          bool has_empty_row = false;
          for (int i = a.get_min_index(); i <= a.get_max_index(); ++i)
            if (a[i].size() == 0)
              has_empty_row = true;
          // is_contiguous() may only say yes if the elements really are contiguous; it must say yes for
          // contiguous arrays without empty rows (with an empty row a conservative 'no' is acceptable)
          const bool reported = a.is_contiguous();
          if ((reported && !contiguous) || (!reported && contiguous && !has_empty_row))
            {
              ++fails;
              std::fprintf(out, "ORACLE-FAIL irregular: is_contiguous()=%d but element addresses say %d | history: %s\n", a.is_contiguous() ? 1 : 0,
                           contiguous ? 1 : 0, trace.str().c_str());
              break;
            }
          // copy_to delivers exactly the elements in row-major order
          std::vector<int> got(ref.size() + 4, -777);
          copy_to(a, got.begin());
          bool ok = true;
          std::size_t pos = 0;
          for (auto& kv : ref)
            ok = ok && got[pos++] == kv.second;
          ok = ok && got[ref.size()] == -777;
          if (!ok)
            {
              ++fails;
              std::fprintf(out, "ORACLE-FAIL irregular: copy_to does not deliver the elements in row-major order | history: %s\n", trace.str().c_str());
              break;
            }
          // fill_from writes exactly the elements, in row-major order, and nothing else
          std::vector<int> src(ref.size());
          for (std::size_t q = 0; q < src.size(); ++q)
            src[q] = 5000 + static_cast<int>(q) + 17 * op;
          std::vector<int> guard;
          if (view)
            guard.assign(mem.get(), mem.get() + n0 * n1);
          fill_from(a, src.begin(), src.end());
          pos = 0;
          for (auto& kv : ref)
            kv.second = src[pos++];
          if (!check_against(a, ref, why))
            {
              ++fails;
              std::fprintf(out, "ORACLE-FAIL irregular: after fill_from: %s | history: %s\n", why.c_str(), trace.str().c_str());
              break;
            }
          if (view)
            {
              // cells of the shared block that are not elements of the array must be untouched
              std::set<const int*> elems;
              for (int i = a.get_min_index(); i <= a.get_max_index(); ++i)
                for (int j = a[i].get_min_index(); j <= a[i].get_max_index(); ++j)
                  elems.insert(&a[i][j]);
              for (int q = 0; q < n0 * n1; ++q)
                if (!elems.count(mem.get() + q) && mem[q] != guard[q])
                  ok = false;
              if (!ok)
                {
                  ++fails;
                  std::fprintf(out, "ORACLE-FAIL irregular: fill_from wrote to a cell that is not an element of the array | history: %s\n", trace.str().c_str());
                  break;
                }
            }
          // get_full_data_ptr: error for non-contiguous arrays, row-major view otherwise
          bool threw = false;
          try
            {
              int* fp = a.get_full_data_ptr();
              pos = 0;
              for (auto& kv : ref)
                ok = ok && fp[pos++] == kv.second;
              a.release_full_data_ptr();
            }
          catch (std::exception&)
            {
              threw = true;
              a.release_full_data_ptr();
            }
          if (threw == reported || !ok)
            {
              ++fails;
              std::fprintf(out, "ORACLE-FAIL irregular: get_full_data_ptr %s for a %s array | history: %s\n", threw ? "reported an error" : "returned a pointer",
                           reported ? "contiguous" : "non-contiguous", trace.str().c_str());
              break;
            }
        }
    }
  return fails;
}

int
main(int argc, char** argv)
{
  if (argc >= 4 && std::string(argv[1]) == "exec")
    return run_exec(argv[2], argv[3]);
  if (argc >= 6 && std::string(argv[1]) == "nd")
    {
      vh::Rng rng(std::strtoull(argv[2], nullptr, 10) * 7919ULL + 11);
      const int histories = std::atoi(argv[3]);
      const int len = std::atoi(argv[4]);
      FILE* out = std::fopen(argv[5], "w");
      long steps = 0;
      long fails = 0;
      fails += nd_histories<2>(rng, histories, len, out, steps);
      fails += nd_histories<3>(rng, histories / 2 + 1, len, out, steps);
      fails += view_checks(rng, histories, out, steps);
      fails += irregular_checks(rng, histories, out, steps);
      std::fprintf(out, "ND-DONE steps=%ld fails=%ld\n", steps, fails);
      std::fclose(out);
      return fails ? 1 : 0;
    }
  std::fprintf(stderr, "usage: c11_arrays exec <ops> <out> | nd <seed> <histories> <len> <out>\n");
  return 2;
}
