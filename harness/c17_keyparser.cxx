// C17 — implementation side, part 1 (differential + property oracle).
//
// Drives the real stir::KeyParser (get_keyword / standardise_keyword / add_key / add_vectorised_key / add_alias_key /
// parse / parameter_info) and every class found at run time in the RegisteredObject registries.
//   (a) line protocol (ops file / impl file) compared with the Lean model (lean/Driver/C17.lean):
//         std x<s>, kw x<line>, cfg reset|key|alias …, parse x<text>, info, count <current> x<line>,
//         pdfsseg <S> <axial…> | <min ring diffs…>|- | <max ring diffs…>|-
//       inputs: keywords and lines of headers written by the library itself (Interfile image / projection data
//       headers, parameter_info() of registered classes and of the probe tables) and grammar-aware mutations; keys are
//       registered in non-standard spellings, aliases with arbitrary spellings of alias AND target (incl. the aliases that the
//       library registers itself, found by scanning its sources), texts use any spelling of key or alias; every modelled
//       vectorised key type at index 0 / negative / in range / size+1 / beyond / wrapping; per-segment lists of a
//       projection-data header (one list too short / too long / absent) through the real InterfilePDFSHeader.
//   (b) property oracle on the implementation (<implfile>.oracle):
//         - every registered parsable class: s1 = obj->parameter_info(); obj2 = parse(s1); s2 = obj2->parameter_info(); s1 == s2
//           (also after seeded value replacements accepted by the class), each class in a forked child; classes that need
//           external data are constructed from small files the harness writes itself (write_class_fixtures);
//         - keyword matching ignores case / runs of " \t_!", aliases resolve (random spellings of registered key, named
//           target, alias and line; the library's own aliases: header with alias spelling == header with target spelling),
//           vectorised keys of all eight types land at the index given or are refused;
//         - an accepted projection-data header has as many segments as 'matrix size [4]' and every per-segment list say;
//         - KeyParser tables with random printable values: parameter_info -> parse -> parameter_info is the identity;
//         - string lists are split and trimmed like scalar strings; input ending in a continuation backslash terminates;
//         - the tables of an Interfile header have the number of elements that the header declares.
//   (c) Interfile image / multiple-data-set headers with their size-giving keys in ANY order (`hdr image|multi x<text>`): generated
//       single / dynamic / parametric headers in the writer's order and re-ordered (c17_hdrcheck.h), answer = every modelled member of the
//       header object, against the Lean model of the count-key call-backs; ORACLE: accepted => every table has the announced length;
//       re-ordered and accepted => same members as the writer's order; fault-free header in the writer's order => accepted.
//   (d) copies of ParsingObjects (`po new|copy|assign|parse|info|destroy`): histories on a concrete ParsingObject against the Lean heap
//       model; ORACLE: a copy prints the values it was copied with, operations on one object never change what another prints.
// Usage: c17_keyparser <seed> <quick|thorough> <opsfile> <implfile>
#include "common.h"
#include "stir_fixtures.h"
#include "stir/KeyParser.h"
#include "stir/RegisteredObject.h"
#include "stir/DataProcessor.h"
#include "stir/DiscretisedDensity.h"
#include "stir/DynamicDiscretisedDensity.h"
#include "stir/modelling/ParametricDiscretisedDensity.h"
#include "stir/modelling/KineticModel.h"
#include "stir/recon_buildblock/GeneralisedPrior.h"
#include "stir/recon_buildblock/GeneralisedObjectiveFunction.h"
#include "stir/recon_buildblock/ProjectorByBinPair.h"
#include "stir/recon_buildblock/ForwardProjectorByBin.h"
#include "stir/recon_buildblock/BackProjectorByBin.h"
#include "stir/recon_buildblock/ProjMatrixByBin.h"
#include "stir/recon_buildblock/BinNormalisation.h"
#include "stir/recon_buildblock/Reconstruction.h"
#include "stir/recon_buildblock/ProjDataRebinning.h"
#include "stir/IO/OutputFileFormat.h"
#include "stir/Shape/Shape3D.h"
#include "stir/scatter/ScatterSimulation.h"
#include "stir/data/SinglesRates.h"
#include "stir/ProjDataInterfile.h"
#include "stir/SegmentByView.h"
#include "stir/IO/InterfileHeader.h"
#include "stir/MultipleDataSetHeader.h"
#include "stir/ExamInfo.h"
#include "stir/TextWriter.h"
#include "stir/Succeeded.h"
#include "stir/ParsingObject.h"
#include "c17_hdrcheck.h"
#include <algorithm>
#include <deque>
#include <dirent.h>
#include <regex>
#include <map>
#include <memory>
#include <set>
#include <fcntl.h>
#include <signal.h>
#include <sys/resource.h>
#include <sys/stat.h>
#include <sys/wait.h>
#include <unistd.h>

using namespace stir;

// ------------------------------------------------------------------------------------------------ small helpers
static FILE *g_ops, *g_out, *g_orc, *g_cls;
static long g_oracle_checks = 0, g_oracle_fails = 0;
static std::ostringstream g_sink; // all library chatter goes here
static std::set<std::string> g_candidates_reported;

static std::string
hexs(const std::string& s)
{
  static const char* d = "0123456789abcdef";
  std::string r = "x";
  for (unsigned char c : s)
    {
      r += d[c >> 4];
      r += d[c & 15];
    }
  return r;
}

static void
emit(const std::string& op, const std::string& answer)
{
  std::fprintf(g_ops, "%s\n", op.c_str());
  std::fprintf(g_out, "%s\n", answer.c_str());
}

static std::string
one_line(std::string s, std::size_t maxlen = 300)
{
  for (char& c : s)
    if (c == '\n' || c == '\r')
      c = '|';
  if (s.size() > maxlen)
    s = s.substr(0, maxlen) + "...";
  return s;
}

static void
oracle_fail(const std::string& text)
{
  ++g_oracle_fails;
  std::fprintf(g_orc, "ORACLE-FAIL %s\n", one_line(text, 600).c_str());
}

static void
known_candidate(const std::string& key, const std::string& text)
{
  ++g_oracle_fails;
  if (g_candidates_reported.insert(key).second)
    std::fprintf(g_orc, "KNOWN-CANDIDATE %s %s\n", key.c_str(), one_line(text, 900).c_str());
}

static std::string
key_token(std::string s)
{
  for (char& c : s)
    if (!isalnum(static_cast<unsigned char>(c)))
      c = '_';
  return s;
}

// ------------------------------------------------------------------------------------------------ probe tables
enum Kind
{
  K_NONE,
  K_INT,
  K_BOOL,
  K_ASCII,
  K_CHOICE,
  K_ILIST,
  K_SLIST,
  K_VINT,
  K_VASCII,
  K_VILIST
};
static const char* kind_name[] = { "none", "int", "bool", "ascii", "choice", "ilist", "slist", "vint", "vascii", "vilist" };

struct Slot
{
  Kind kind = K_NONE;
  std::string action = "set";
  std::string key, stdkey;
  int i = 0;
  bool b = false;
  std::string s;
  int choice = 0;
  ASCIIlist_type values;
  std::vector<int> il;
  std::vector<std::string> sl;
  std::vector<std::vector<int>> vl;
};

struct Probe : public KeyParser
{
  std::string kw(const std::string& l) const { return get_keyword(l); }
  std::string stdk(const std::string& l) const { return standardise_keyword(l); }
};

static std::string
fmt_ints(const std::vector<int>& l)
{
  std::ostringstream s;
  s << l.size() << ":";
  for (std::size_t k = 0; k < l.size(); ++k)
    s << (k ? "," : "") << l[k];
  return s.str();
}

static std::string
fmt_strs(const std::vector<std::string>& l)
{
  std::ostringstream s;
  s << l.size() << ":";
  for (std::size_t k = 0; k < l.size(); ++k)
    s << (k ? "," : "") << hexs(l[k]);
  return s.str();
}

struct Table
{
  std::unique_ptr<Probe> kp;
  std::vector<std::unique_ptr<Slot>> all;
  std::vector<Slot*> order;
  std::vector<std::pair<std::string, std::string>> aliases; // (alias as registered, standardised target)
  bool silent = false; // do not write protocol lines (oracle-only tables)

  explicit Table(bool silent_v = false) { reset(silent_v); }
  void reset(bool silent_v = false)
  {
    silent = silent_v;
    kp.reset(new Probe);
    order.clear();
    aliases.clear();
    if (!silent)
      emit("cfg reset", "ok");
  }
  Slot* find(const std::string& stdkey)
  {
    for (Slot* s : order)
      if (s->stdkey == stdkey)
        return s;
    return nullptr;
  }
  std::string init_tokens(const Slot& s) const
  {
    std::ostringstream o;
    switch (s.kind)
      {
      case K_NONE:
        break;
      case K_INT:
        o << " " << s.i;
        break;
      case K_BOOL:
        o << " " << (s.b ? 1 : 0);
        break;
      case K_ASCII:
        o << " " << hexs(s.s);
        break;
      case K_CHOICE:
        o << " " << s.choice;
        for (auto& v : s.values)
          o << " " << hexs(v);
        break;
      case K_ILIST:
      case K_VINT:
        for (int v : s.il)
          o << " " << v;
        break;
      case K_SLIST:
      case K_VASCII:
        for (auto& v : s.sl)
          o << " " << hexs(v);
        break;
      case K_VILIST:
        o << " " << s.vl.size();
        for (std::size_t k = 0; k < s.vl.size(); ++k)
          {
            o << " |";
            for (int v : s.vl[k])
              o << " " << v;
          }
        break;
      }
    return o.str();
  }
  Slot* add(const Slot& proto)
  {
    all.emplace_back(new Slot(proto));
    Slot* s = all.back().get();
    s->stdkey = kp->stdk(s->key);
    if (!silent)
      emit("cfg key " + s->action + " " + kind_name[s->kind] + " " + hexs(s->key) + init_tokens(*s), "ok");
    if (s->action == "start")
      kp->add_start_key(s->key);
    else if (s->action == "stop")
      kp->add_stop_key(s->key);
    else if (s->action == "ignore")
      kp->ignore_key(s->key);
    else
      switch (s->kind)
        {
        case K_INT:
          kp->add_key(s->key, &s->i);
          break;
        case K_BOOL:
          kp->add_key(s->key, &s->b);
          break;
        case K_ASCII:
          kp->add_key(s->key, &s->s);
          break;
        case K_CHOICE:
          kp->add_key(s->key, &s->choice, &s->values);
          break;
        case K_ILIST:
          kp->add_key(s->key, &s->il);
          break;
        case K_SLIST:
          kp->add_key(s->key, &s->sl);
          break;
        case K_VINT:
          kp->add_vectorised_key(s->key, &s->il);
          break;
        case K_VASCII:
          kp->add_vectorised_key(s->key, &s->sl);
          break;
        case K_VILIST:
          kp->add_vectorised_key(s->key, &s->vl);
          break;
        default:
          kp->ignore_key(s->key);
        }
    // add_in_keymap overwrites an entry with the same standardised keyword in place
    bool replaced = false;
    for (auto& o : order)
      if (o->stdkey == s->stdkey)
        {
          o = s;
          replaced = true;
        }
    if (!replaced)
      order.push_back(s);
    return s;
  }
  void alias(const std::string& key, const std::string& al, bool deprecated)
  {
    if (!silent)
      emit(std::string("cfg alias ") + (deprecated ? "1 " : "0 ") + hexs(key) + " " + hexs(al), "ok");
    kp->add_alias_key(key, al, deprecated);
    aliases.emplace_back(al, kp->stdk(key));
  }
  // the aliases (as registered) whose target is the slot with this standardised keyword
  std::vector<std::string> aliases_of(const std::string& stdkey) const
  {
    std::vector<std::string> r;
    for (auto& a : aliases)
      if (a.second == stdkey)
        r.push_back(a.first);
    return r;
  }
  std::string dump() const
  {
    std::ostringstream o;
    bool first = true;
    for (const Slot* s : order)
      {
        if (s->action != "set" || s->kind == K_NONE)
          continue;
        o << (first ? "" : " ");
        first = false;
        switch (s->kind)
          {
          case K_INT:
            o << "i:" << s->i;
            break;
          case K_BOOL:
            o << "b:" << (s->b ? 1 : 0);
            break;
          case K_ASCII:
            o << "s:" << hexs(s->s);
            break;
          case K_CHOICE:
            o << "c:" << s->choice;
            break;
          case K_ILIST:
            o << "il:" << fmt_ints(s->il);
            break;
          case K_SLIST:
            o << "sl:" << fmt_strs(s->sl);
            break;
          case K_VINT:
            o << "vi:" << fmt_ints(s->il);
            break;
          case K_VASCII:
            o << "vs:" << fmt_strs(s->sl);
            break;
          case K_VILIST:
            o << "vl:" << s->vl.size() << ":";
            for (std::size_t k = 0; k < s->vl.size(); ++k)
              o << (k ? ";" : "") << fmt_ints(s->vl[k]);
            break;
          default:
            break;
          }
      }
    return o.str();
  }
  // in-process parse; returns protocol answer
  std::string parse_here(const std::string& text)
  {
    std::string tag;
    try
      {
        std::istringstream is(text);
        tag = kp->parse(is) ? "ok1" : "ok0";
      }
    catch (std::bad_alloc&)
      {
        throw;
      }
    catch (std::exception&)
      {
        tag = "err";
      }
    const std::string d = dump();
    return d.empty() ? tag : tag + " " + d;
  }
  // a text containing a backslash may make read_line() loop for ever: try it in a child first
  bool hangs(const std::string& text)
  {
    if (text.find('\\') == std::string::npos)
      return false;
    std::fflush(nullptr);
    pid_t pid = fork();
    if (pid == 0)
      {
        struct rlimit rl;
        rl.rlim_cur = rl.rlim_max = 1UL << 30;
        setrlimit(RLIMIT_AS, &rl);
        signal(SIGALRM, SIG_DFL);
        alarm(4);
        try
          {
            std::istringstream is(text);
            kp->parse(is);
          }
        catch (std::bad_alloc&)
          {
            _exit(3);
          }
        catch (...)
          {}
        _exit(0);
      }
    int st = 0;
    waitpid(pid, &st, 0);
    return !(WIFEXITED(st) && WEXITSTATUS(st) == 0);
  }
  std::string do_parse(const std::string& text)
  {
    std::string ans = hangs(text) ? std::string("hang") : parse_here(text);
    if (!silent)
      emit("parse " + hexs(text), ans);
    return ans;
  }
  std::string info()
  {
    const std::string s = kp->parameter_info();
    if (!silent)
      emit("info", hexs(s));
    return s;
  }
};

// ------------------------------------------------------------------------------------------------ generators
static const char* WORDS[] = { "number", "of",     "rings",  "matrix", "size",   "scaling", "factor", "name",  "data",  "file",
                               "type",   "offset", "energy", "window", "level",  "TOF",     "bin",    "order", "view",  "x",
                               "max",    "%sms-mi", "(mm/pixel)", "a:b", "origin", "time",  "frames", "PET",   "study", "!INTERFILE" };
static const int NWORDS = sizeof(WORDS) / sizeof(WORDS[0]);

static std::string
random_key(vh::Rng& rng)
{
  const int n = rng.range(1, 4);
  std::string k;
  for (int j = 0; j < n; ++j)
    k += std::string(j ? " " : "") + WORDS[rng.range(0, NWORDS - 1)];
  return k;
}

// a variant of `key` that differs only in case and in the runs of " \t_!" (documented as equivalent)
static std::string
equivalent_variant(vh::Rng& rng, const std::string& key)
{
  static const char ws[] = " \t_!";
  std::string r;
  for (int k = rng.range(0, 2); k > 0; --k)
    r += ws[rng.range(0, 3)];
  for (char c : key)
    {
      if (c == ' ' || c == '\t' || c == '_' || c == '!')
        for (int k = rng.range(1, 3); k > 0; --k)
          r += ws[rng.range(0, 3)];
      else if (rng.coin())
        r += static_cast<char>(toupper(static_cast<unsigned char>(c)));
      else
        r += static_cast<char>(tolower(static_cast<unsigned char>(c)));
    }
  for (int k = rng.range(0, 2); k > 0; --k)
    r += ws[rng.range(0, 3)];
  return r;
}

// arbitrary damage to a keyword (may or may not be equivalent)
static std::string
damaged_key(vh::Rng& rng, const std::string& key)
{
  std::string r = key;
  static const char pool[] = " \t_!\r\v\f:=[]{},;\\-+.aZ9\x80\xe9";
  for (int k = rng.range(1, 3); k > 0; --k)
    {
      const char c = pool[rng.range(0, static_cast<int>(sizeof(pool)) - 2)];
      const int pos = rng.range(0, static_cast<int>(r.size()));
      switch (rng.range(0, 2))
        {
        case 0:
          r.insert(r.begin() + pos, c);
          break;
        case 1:
          if (pos < static_cast<int>(r.size()))
            r[pos] = c;
          break;
        default:
          if (pos < static_cast<int>(r.size()))
            r.erase(r.begin() + pos);
        }
    }
  return r;
}

static const char* VALUES[]
    = { "0",         "1",       "-1",     "7",        "+5",      "  42  ",  "12abc",    "abc",      "",          "   ",
        "2147483647", "2147483648", "-2147483648", "-2147483649", "99999999999999999999", "0x10", "1e3", "3.5", "-",
        "{1,2,3}",   "{1, 2, 3}", "{ 1 , 2 }", "{}",   "{ }",     "{1,2",    "{1,,2}",   "{1;2}",    "{1, 2}x",   "{a, b}",
        "{a , b c ,d}", "{a, bc", "{a, }",  "{,a}",     "{{1,2},{3}}", "{1, -", "{-}",   "{ 7",      "{99999999999}", "a, b",
        "hello world", "  padded value \t", "x=y", "a := b", "[3]", "v]",   "first value", "SECOND__value", "Third", "none",
        "1 2 3",     "\t9",     "007",    "-0",       "+",       "{+1, -2}", "{1 2}",    "{1,2}}",   "}{",        ",",
        "tab\tinside", "cr\rinside", "\x0bvt", "caf\xe9" };
static const int NVALUES = sizeof(VALUES) / sizeof(VALUES[0]);

static const char* INDICES[] = { "[1]", "[2]", "[3]", "[4]", "[0]", "[-1]", "[ 2 ]", "[2x]", "[x]", "[]", "[", "[99999999999]",
                                 "[4294967297]", "[+1]", "[1][2]", "[18446744073709551617]", "[-9223372036854775809]", "[\t1]" };
static const int NINDICES = sizeof(INDICES) / sizeof(INDICES[0]);

static std::vector<std::string>
split_lines(const std::string& text)
{
  std::vector<std::string> l;
  std::string cur;
  for (char c : text)
    if (c == '\n')
      {
        l.push_back(cur);
        cur.clear();
      }
    else
      cur += c;
  if (!cur.empty())
    l.push_back(cur);
  return l;
}

static std::string
join_lines(const std::vector<std::string>& l, const std::string& eol = "\n")
{
  std::string t;
  for (auto& x : l)
    t += x + eol;
  return t;
}

// grammar-aware mutation of a parameter/header text
static std::string
mutate_text(vh::Rng& rng, const std::string& text, bool allow_backslash)
{
  std::vector<std::string> lines = split_lines(text);
  if (lines.empty())
    return text;
  std::string eol = "\n";
  const int nmut = rng.range(1, 3);
  for (int m = 0; m < nmut; ++m)
    {
      const int li = rng.range(0, static_cast<int>(lines.size()) - 1);
      std::string& line = lines[li];
      const std::size_t as = line.find(":=");
      switch (rng.range(0, 11))
        {
        case 0: // value replacement
        case 1:
          if (as != std::string::npos)
            line = line.substr(0, as + 2) + (rng.coin() ? " " : "") + VALUES[rng.range(0, NVALUES - 1)];
          break;
        case 2: // index change / insertion
          {
            const std::size_t lb = line.find('[');
            const std::size_t rb = line.find(']');
            if (lb != std::string::npos && rb != std::string::npos && lb < rb && (as == std::string::npos || rb < as))
              line = line.substr(0, lb) + INDICES[rng.range(0, NINDICES - 1)] + line.substr(rb + 1);
            else if (as != std::string::npos)
              line = line.substr(0, as) + INDICES[rng.range(0, NINDICES - 1)] + line.substr(as);
          }
          break;
        case 3: // line deletion
          lines.erase(lines.begin() + li);
          if (lines.empty())
            return "";
          break;
        case 4: // line duplication (possibly elsewhere)
          {
            const std::string copy = line;
            lines.insert(lines.begin() + rng.range(0, static_cast<int>(lines.size())), copy);
          }
          break;
        case 5: // keyword: equivalent variant
          if (as != std::string::npos)
            {
              const std::size_t lb = line.find('[');
              const std::size_t ke = (lb != std::string::npos && lb < as) ? lb : as;
              line = equivalent_variant(rng, line.substr(0, ke)) + line.substr(ke);
            }
          break;
        case 6: // keyword: damage
          if (as != std::string::npos)
            line = damaged_key(rng, line.substr(0, as)) + line.substr(as);
          break;
        case 7: // truncation at a line
          lines.resize(li + 1);
          break;
        case 8: // DOS line ends / trailing blanks / comment / blank line
          switch (rng.range(0, 4))
            {
            case 0:
              eol = "\r\n";
              break;
            case 1:
              line += "  \t";
              break;
            case 2:
              lines.insert(lines.begin() + li, rng.coin() ? "; a comment := 3" : "");
              break;
            case 3:
              lines.insert(lines.begin() + li, rng.coin() ? "   " : "\t");
              break;
            default:
              line += "\r";
            }
          break;
        case 9: // continuation
          if (allow_backslash && line.size() > 2)
            {
              const int pos = rng.range(1, static_cast<int>(line.size()) - 1);
              line = line.substr(0, pos) + "\\" + eol + line.substr(pos);
            }
          break;
        case 10: // ':=' damage
          if (as != std::string::npos)
            {
              static const char* repl[] = { ":", "=", ": =", " := ", ":==", "::=", "" };
              line = line.substr(0, as) + repl[rng.range(0, 6)] + line.substr(as + 2);
            }
          break;
        default: // swap two lines
          {
            const int lj = rng.range(0, static_cast<int>(lines.size()) - 1);
            std::swap(lines[li], lines[lj]);
          }
        }
    }
  std::string t = join_lines(lines, eol);
  // truncation at a byte
  if (rng.range(0, 5) == 0 && !t.empty())
    t.resize(rng.range(0, static_cast<int>(t.size())));
  else if (rng.range(0, 7) == 0 && !t.empty())
    t.resize(t.size() - 1); // no final newline
  if (!allow_backslash)
    t.erase(std::remove(t.begin(), t.end(), '\\'), t.end());
  else if (rng.range(0, 3) == 0)
    t += rng.coin() ? "\\" : "\\\r"; // input ends in the continuation character
  // not modelled: NUL bytes and ${ENV} substitution
  t.erase(std::remove(t.begin(), t.end(), '\0'), t.end());
  std::size_t p;
  while ((p = t.find("${")) != std::string::npos)
    t.erase(p, 1);
  return t;
}

// ------------------------------------------------------------------------------------------------ the fixed probe table
struct ProbeTable : public Table
{
  Slot *n_things, *a_name, *flag, *mode, *ilist, *slist, *vints, *vnames, *vlists;
  explicit ProbeTable(bool silent_v, int vsize = 3)
      : Table(silent_v)
  {
    Slot p;
    p.kind = K_NONE;
    p.action = "start";
    p.key = "Probe Parameters";
    add(p);
    p = Slot();
    // registered spellings are deliberately not in standardised form (capitals, '_', '!', repeated / trailing blanks)
    p.kind = K_INT;
    p.key = "Number of_Things ";
    p.i = 11;
    n_things = add(p);
    p = Slot();
    p.kind = K_ASCII;
    p.key = "A  !name";
    p.s = "dflt";
    a_name = add(p);
    p = Slot();
    p.kind = K_BOOL;
    p.key = "flag";
    flag = add(p);
    p = Slot();
    p.kind = K_CHOICE;
    p.key = "mode";
    p.values = { "first value", "Second_Value", "third" };
    p.choice = 2;
    mode = add(p);
    p = Slot();
    p.kind = K_ILIST;
    p.key = "int list";
    p.il = { 4, 5 };
    ilist = add(p);
    p = Slot();
    p.kind = K_SLIST;
    p.key = "string list";
    slist = add(p);
    p = Slot();
    p.kind = K_VINT;
    p.key = "v ints";
    p.il.assign(vsize, -7);
    vints = add(p);
    p = Slot();
    p.kind = K_VASCII;
    p.key = "v names";
    p.sl.assign(vsize, "u");
    vnames = add(p);
    p = Slot();
    p.kind = K_VILIST;
    p.key = "v lists";
    p.vl.assign(vsize, std::vector<int>(1, 9));
    vlists = add(p);
    p = Slot();
    p.kind = K_NONE;
    p.action = "ignore";
    p.key = "GENERAL DATA";
    add(p);
    p = Slot();
    p.kind = K_NONE;
    p.action = "stop";
    p.key = "End Probe Parameters";
    add(p);
    // ... and the aliases name their target in yet another spelling
    alias("NUMBER of  things", "nr of things", false);
    alias("a_name", "Old Name", true);
  }
};

static const std::string PROBE_START = "Probe Parameters :=\n";
static const std::string PROBE_STOP = "End Probe Parameters :=\n";

// ------------------------------------------------------------------------------------------------ registry round trip
struct ClassResult
{
  std::string status; // same | diff | reparse-null | not-constructible | exception | crash
  std::string detail;
  int mutated_tried = 0, mutated_accepted = 0, mutated_same = 0;
  std::vector<std::string> mutated_fail; // keyword: detail
  std::string s1;
};

static std::string
capture_start_keyword(const std::string& warnings)
{
  const std::string tag = "required first keyword \"";
  std::size_t pos = warnings.find(tag);
  if (pos == std::string::npos)
    return "";
  pos += tag.size();
  const std::size_t e = warnings.find('"', pos);
  return e == std::string::npos ? "" : warnings.substr(pos, e - pos);
}

// hand-written minimal parameter texts for classes whose defaults are rejected by their own post_processing
// (looked up by registered name at run time; unknown names are ignored)
static std::map<std::string, std::vector<std::string>>&
seed_texts()
{
  static std::map<std::string, std::vector<std::string>> m;
  if (m.empty())
    {
      m["Shape3D/Ellipsoid"] = { "Ellipsoid Parameters :=\nradius-x (in mm) := 10\nradius-y (in mm) := 20\nradius-z (in mm) := 30\nEnd :=\n" };
      m["Shape3D/Ellipsoidal Cylinder"]
          = { "Ellipsoidal Cylinder Parameters :=\nradius-x (in mm) := 10\nradius-y (in mm) := 20\nlength-z (in mm) := 30\nEnd :=\n" };
      m["Shape3D/Box3D"] = { "Box Parameters :=\nlength-x (in mm) := 10\nlength-y (in mm) := 20\nlength-z (in mm) := 30\nEND :=\n" };
      m["ProjectorByBinPair/Matrix"]
          = { "Projector Pair Using Matrix Parameters :=\nMatrix type := Ray Tracing\nRay Tracing Matrix Parameters :=\nnumber of rays in "
              "tangential direction to trace for each bin := 2\nEnd Ray Tracing Matrix Parameters :=\nEnd Projector Pair Using Matrix "
              "Parameters :=\n" };
      m["ForwardProjectorByBin/Matrix"] = { "Forward Projector Using Matrix Parameters :=\nMatrix type := Ray Tracing\nRay Tracing Matrix "
                                            "Parameters :=\nEnd Ray Tracing Matrix Parameters :=\nEnd Forward Projector Using Matrix "
                                            "Parameters :=\n" };
      m["BackProjectorByBin/Matrix"] = { "Back Projector Using Matrix Parameters :=\nMatrix type := Ray Tracing\nRay Tracing Matrix "
                                         "Parameters :=\nEnd Ray Tracing Matrix Parameters :=\nEnd Back Projector Using Matrix "
                                         "Parameters :=\n" };
      m["ProjectorByBinPair/Separate Projectors"]
          = { "Projector Pair Using Separate Projectors Parameters :=\nForward projector type := Ray Tracing\nForward Projector Using Ray "
              "Tracing Parameters :=\nEnd Forward Projector Using Ray Tracing Parameters :=\nBack projector type := "
              "Interpolation\nBack Projector Using Interpolation Parameters :=\nEnd Back Projector Using Interpolation Parameters "
              ":=\nEnd Projector Pair Using Separate Projectors Parameters :=\n" };
      m["ForwardProjectorByBin/Pre Smoothing"]
          = { "Pre Smoothing Forward Projector Parameters :=\nOriginal Forward projector type := Ray Tracing\nForward Projector Using Ray "
              "Tracing Parameters :=\nEnd Forward Projector Using Ray Tracing Parameters :=\nfilter type := Separable Gaussian\nSeparable "
              "Gaussian Filter Parameters :=\nx-dir filter FWHM (in mm) := 5\nEnd Separable Gaussian Filter Parameters :=\nEnd Pre "
              "Smoothing Forward Projector Parameters :=\n" };
      m["BackProjectorByBin/Post Smoothing"]
          = { "Post Smoothing Back Projector Parameters :=\nOriginal Back projector type := Interpolation\nBack Projector Using "
              "Interpolation Parameters :=\nEnd Back Projector Using Interpolation Parameters :=\nfilter type := Median\nMedian Filter "
              "Parameters :=\nmask radius x := 1\nEnd Median Filter Parameters :=\nEnd Post Smoothing Back Projector Parameters :=\n" };
      m["DataProcessor/Chained Data Processor"]
          = { "Chained Data Processor Parameters :=\nData Processor to apply first := Median\nMedian Filter Parameters :=\nmask radius x := "
              "2\nEnd Median Filter Parameters :=\nData Processor to apply second := Truncate To Cylindrical FOV\nTruncate To Cylindrical "
              "FOV Parameters :=\nEnd Truncate To Cylindrical FOV Parameters :=\nEND Chained Data Processor Parameters :=\n" };
      m["GeneralisedPrior/FilterRootPrior"] = { "FilterRootPrior Parameters :=\npenalisation factor := 2\nFilter type := Median\nMedian "
                                                "Filter Parameters :=\nmask radius z := 1\nEnd Median Filter Parameters :=\nEND "
                                                "FilterRootPrior Parameters :=\n" };
      // classes that need external data: small files written by the harness itself (write_class_fixtures), @D@ = their directory
      m["BinNormalisation/From ProjData"] = { "Bin Normalisation From ProjData :=\nnormalisation_projdata_filename := @D@/fx_proj.hs\nEnd Bin "
                                              "Normalisation From ProjData :=\n" };
      m["BinNormalisation/From Attenuation Image"]
          = { "Bin Normalisation From Attenuation Image :=\nattenuation_image_filename := @D@/fx_image.hv\nforward projector type := Ray "
              "Tracing\nForward Projector Using Ray Tracing Parameters :=\nEnd Forward Projector Using Ray Tracing Parameters :=\nEnd Bin "
              "Normalisation From Attenuation Image :=\n" };
      m["BinNormalisation/SPECT"] = { "Bin Normalisation SPECT :=\nuse uniformity factors := 0\nuse detector efficiencies := 0\nuse decay "
                                      "correction := 0\nprojdata filename := @D@/fx_proj.hs\nEnd Bin Normalisation SPECT :=\n" };
      m["Shape3D/Discretised Shape3D"] = { "Discretised Shape3D Parameters :=\ninput filename := @D@/fx_image.hv\nEND :=\n" };
      m["DataProcessor/Nonseparable Convolution Using Real DFT Image Filter"]
          = { "Nonseparable Convolution Using Real DFT Image Filter :=\nfilter kernel := @D@/fx_image.hv\nEND Nonseparable Convolution Using "
              "Real DFT Image Filter :=\n" };
      m["KineticModel/Patlak Plot"] = { "Patlak Plot Parameters :=\nBlood Data Filename := @D@/fx_plasma.if\nTime Frame Definition Filename := "
                                        "@D@/fx_frames.fdef\nend Patlak Plot Parameters :=\n" };
      m["Reconstruction/FBP2D"] = { "FBP2DParameters :=\ninput file := @D@/fx_proj.hs\noutput filename prefix := @D@/fx_out_fbp2d\nEnd :=\n" };
      m["Reconstruction/FBP3DRP"] = { "FBP3DRPParameters :=\ninput file := @D@/fx_proj.hs\noutput filename prefix := @D@/fx_out_fbp3d\nEnd :=\n" };
      const std::string objfn = "objective function type := PoissonLogLikelihoodWithLinearModelForMeanAndProjData\n"
                                "PoissonLogLikelihoodWithLinearModelForMeanAndProjData Parameters :=\ninput file := @D@/fx_proj.hs\n"
                                "projector pair type := Matrix\nProjector Pair Using Matrix Parameters :=\nMatrix type := Ray Tracing\n"
                                "Ray Tracing Matrix Parameters :=\nEnd Ray Tracing Matrix Parameters :=\nEnd Projector Pair Using Matrix Parameters :=\n"
                                "end PoissonLogLikelihoodWithLinearModelForMeanAndProjData Parameters :=\n";
      m["Reconstruction/OSMAPOSL"] = { "OSMAPOSLParameters :=\n" + objfn + "output filename prefix := @D@/fx_out_osmaposl\nnumber of subsets := 2\nnumber of "
                                       "subiterations := 2\nEnd :=\n" };
      m["Reconstruction/OSSPS"] = { "OSSPSParameters :=\n" + objfn + "output filename prefix := @D@/fx_out_ossps\nnumber of subsets := 2\nnumber of "
                                    "subiterations := 2\nEnd :=\n" };
      m["Reconstruction/KOSMAPOSL"] = { "KOSMAPOSLParameters :=\n" + objfn + "output filename prefix := @D@/fx_out_kosmaposl\nnumber of subsets := 2\nnumber of "
                                        "subiterations := 2\nanatomical image filenames := {@D@/fx_image.hv}\nsigma_m := {1}\nEnd KOSMAPOSLParameters :=\n" };
      m["ProjDataRebinning/FORE"] = { "FORE Parameters :=\ninput file := @D@/fx_proj.hs\noutput filename prefix := @D@/fx_out_fore\nEnd FORE Parameters :=\n" };
    }
  return m;
}

static std::string
with_dir(std::string t);

static std::vector<std::string>
value_replacements(const std::string& value)
{
  // only numbers are replaced (a replaced file name or type name would need external data)
  char* end = nullptr;
  const double d = std::strtod(value.c_str(), &end);
  if (value.empty() || end == value.c_str() || *end != '\0')
    return {};
  (void)d;
  if (value.find_first_of(".eE") == std::string::npos)
    return { "0", "1", "2", "3", "5", "-1", "17" };
  return { "0", "0.5", "2.5", "1", "-1.25", "0.001", "12345.5" };
}

template <class Root>
static void
probe_class_in_child(const std::string& rootname, const std::string& name, vh::Rng rng, int nmut, int wfd)
{
  // everything the library prints (warnings, errors, info) is captured
  static std::ostringstream cap;
  static TextWriter tw(&cap);
  TextWriterHandle h;
  h.set_warning_channel(&tw);
  h.set_error_channel(&tw);
  h.set_information_channel(&tw);
  auto report = [&](const std::string& line) {
    const std::string l = line + "\n";
    if (write(wfd, l.c_str(), l.size()) < 0)
      {}
  };
  auto stage = [&](const std::string& st) { report("STAGE " + st); };
  auto parse_text = [&](const std::string& text, std::string& why) -> Root* {
    cap.str("");
    Root* p = nullptr;
    try
      {
        std::istringstream in(text);
        p = RegisteredObject<Root>::read_registered_object(&in, name);
        if (!p)
          why = "null: " + one_line(cap.str(), 160);
      }
    catch (std::exception& e)
      {
        why = std::string("exception: ") + one_line(e.what(), 160);
      }
    catch (...)
      {
        why = "exception: (non-std)";
      }
    return p;
  };

  stage("discover-start-keyword");
  std::string why;
  Root* p0 = parse_text("zz verif no such keyword :=\n", why);
  const std::string startkw = capture_start_keyword(cap.str());
  if (p0)
    report("NOTE object returned for a text without its start keyword");
  report("START " + hexs(startkw));

  stage("default-construct");
  std::vector<std::string> texts;
  if (!startkw.empty())
    texts.push_back(startkw + " :=\n");
  auto it = seed_texts().find(rootname + "/" + name);
  if (it != seed_texts().end())
    for (auto& t : it->second)
      if (t.find("@D@") == std::string::npos)
        texts.push_back(t);
      else if (!with_dir("@D@").empty())
        texts.push_back(with_dir(t));
  int constructed = 0;
  for (std::size_t ti = 0; ti < texts.size(); ++ti)
    {
      stage("construct-from-text-" + std::to_string(ti));
      report("TEXT " + hexs(texts[ti]));
      Root* p1 = parse_text(texts[ti], why);
      if (!p1)
        {
          report("NOTCONSTRUCTIBLE " + std::to_string(ti) + " " + why);
          continue;
        }
      ++constructed;
      stage("print-" + std::to_string(ti));
      const std::string s1 = p1->parameter_info();
      report("S1 " + hexs(s1));
      stage("reparse-" + std::to_string(ti));
      Root* p2 = parse_text(s1, why);
      if (!p2)
        {
          report("REPARSE-NULL " + std::to_string(ti) + " " + why);
          continue;
        }
      const std::string s2 = p2->parameter_info();
      if (s1 == s2)
        report("SAME " + std::to_string(ti));
      else
        report("DIFF " + std::to_string(ti) + " " + hexs(s2));

      // value replacement on the printed text
      std::vector<std::string> lines = split_lines(s1);
      std::vector<int> candidates;
      for (std::size_t k = 0; k < lines.size(); ++k)
        {
          const std::size_t as = lines[k].find(":= ");
          if (as != std::string::npos && !value_replacements(lines[k].substr(as + 3)).empty())
            candidates.push_back(static_cast<int>(k));
        }
      for (int m = 0; m < nmut && !candidates.empty(); ++m)
        {
          const int k = candidates[rng.range(0, static_cast<int>(candidates.size()) - 1)];
          const std::size_t as = lines[k].find(":= ");
          const std::vector<std::string> repl = value_replacements(lines[k].substr(as + 3));
          std::vector<std::string> ml = lines;
          ml[k] = lines[k].substr(0, as + 3) + repl[rng.range(0, static_cast<int>(repl.size()) - 1)];
          const std::string mt = join_lines(ml);
          stage("mutated-parse " + hexs(ml[k]));
          Root* q1 = parse_text(mt, why);
          if (!q1)
            {
              report("MUT-REJECTED");
              continue;
            }
          const std::string t1 = q1->parameter_info();
          stage("mutated-reparse " + hexs(ml[k]));
          Root* q2 = parse_text(t1, why);
          if (!q2)
            {
              report("MUT-FAIL " + hexs(ml[k]) + " reparse " + why);
              continue;
            }
          const std::string t2 = q2->parameter_info();
          if (t1 == t2)
            report("MUT-SAME");
          else
            report("MUT-FAIL " + hexs(ml[k]) + " differs");
        }
    }
  report(std::string("DONE ") + std::to_string(constructed));
}

static std::string
unhex(const std::string& tok)
{
  std::string r;
  for (std::size_t k = 1; k + 1 < tok.size(); k += 2)
    r += static_cast<char>(std::stoi(tok.substr(k, 2), nullptr, 16));
  return r;
}

static std::string
first_difference(const std::string& a, const std::string& b)
{
  const std::vector<std::string> la = split_lines(a), lb = split_lines(b);
  for (std::size_t k = 0; k < std::max(la.size(), lb.size()); ++k)
    {
      const std::string x = k < la.size() ? la[k] : "<end>", y = k < lb.size() ? lb[k] : "<end>";
      if (x != y)
        return "line " + std::to_string(k + 1) + ": printed '" + x + "' / after re-parse '" + y + "'";
    }
  return a.size() != b.size() ? "texts differ in trailing blank lines (an empty line printed by the first object is missing after the "
                                "re-parse or vice versa)"
                              : "same";
}

static std::vector<std::string> g_library_texts; // parameter_info() of registered classes: input for the differential part

template <class Root>
static void
probe_root(const std::string& rootname, vh::Rng& rng, int nmut)
{
  std::ostringstream names;
  RegisteredObject<Root>::list_registered_names(names);
  for (const std::string& name : split_lines(names.str()))
    {
      if (name.empty())
        continue;
      int fd[2];
      if (pipe(fd) != 0)
        continue;
      std::fflush(nullptr);
      vh::Rng child_rng(rng.next());
      const pid_t pid = fork();
      if (pid == 0)
        {
          close(fd[0]);
          signal(SIGALRM, SIG_DFL);
          alarm(60);
          struct rlimit rl;
          rl.rlim_cur = rl.rlim_max = 4UL << 30;
          setrlimit(RLIMIT_AS, &rl);
          int devnull = open("/dev/null", O_WRONLY);
          if (devnull >= 0)
            {
              dup2(devnull, 1);
              dup2(devnull, 2);
            }
          probe_class_in_child<Root>(rootname, name, child_rng, nmut, fd[1]);
          _exit(0);
        }
      close(fd[1]);
      std::string all;
      char buf[65536];
      ssize_t n;
      while ((n = read(fd[0], buf, sizeof buf)) > 0)
        all.append(buf, n);
      close(fd[0]);
      int st = 0;
      waitpid(pid, &st, 0);

      // ---- evaluate
      const std::string cls = rootname + "/" + name;
      const std::string ckey = key_token(rootname) + ":" + key_token(name);
      std::string last_stage, last_text, s1;
      int same = 0, diff = 0, reparse_null = 0, notc = 0, mut_same = 0, mut_rej = 0, mut_fail = 0;
      bool done = false;
      std::string notc_why;
      for (const std::string& l : split_lines(all))
        {
          const std::vector<std::string> t = vh::split(l);
          if (t.empty())
            continue;
          if (t[0] == "STAGE")
            last_stage = l.substr(6);
          else if (t[0] == "TEXT")
            last_text = unhex(t[1]);
          else if (t[0] == "S1")
            {
              s1 = unhex(t[1]);
              g_library_texts.push_back(s1);
            }
          else if (t[0] == "SAME")
            {
              ++same;
              ++g_oracle_checks;
            }
          else if (t[0] == "DIFF")
            {
              ++diff;
              ++g_oracle_checks;
              known_candidate("roundtrip:" + ckey,
                              "parameter_info -> parse -> parameter_info is not the identity for registered class '" + name + "' of "
                                  + rootname + " constructed from '" + one_line(last_text, 120) + "': " + first_difference(s1, unhex(t[2])));
            }
          else if (t[0] == "REPARSE-NULL")
            {
              ++reparse_null;
              ++g_oracle_checks;
              known_candidate("reparse:" + ckey,
                              "registered class '" + name + "' of " + rootname + " cannot parse the text it prints for itself (" + l.substr(13)
                                  + "); constructed from '" + one_line(last_text, 120) + "'");
            }
          else if (t[0] == "NOTCONSTRUCTIBLE")
            {
              ++notc;
              notc_why = l.substr(17);
            }
          else if (t[0] == "MUT-SAME")
            {
              ++mut_same;
              ++g_oracle_checks;
            }
          else if (t[0] == "MUT-REJECTED")
            ++mut_rej;
          else if (t[0] == "MUT-FAIL")
            {
              ++mut_fail;
              ++g_oracle_checks;
              const std::string ml = unhex(t[1]);
              const std::string kw = ml.substr(0, ml.find(":="));
              known_candidate("roundtrip-value:" + ckey + ":" + key_token(kw),
                              "after the accepted value replacement '" + ml + "' registered class '" + name + "' of " + rootname
                                  + " does not reproduce its own parameter_info() on re-parsing (" + l.substr(l.find(' ', 10) + 1) + ")");
            }
          else if (t[0] == "DONE")
            done = true;
        }
      std::string status;
      if (!done)
        {
          ++g_oracle_checks;
          std::string how = WIFSIGNALED(st) ? "signal " + std::to_string(WTERMSIG(st)) : "exit " + std::to_string(WEXITSTATUS(st));
          if (WIFSIGNALED(st) && WTERMSIG(st) == SIGALRM)
            how = "timeout (60 s)";
          status = "crash(" + how + ") at " + last_stage;
          // the stage text contains the input: stable key = class + kind of stage
          const std::string stage_kind = last_stage.substr(0, last_stage.find_first_of(" -"));
          known_candidate("crash:" + ckey + ":" + key_token(stage_kind),
                          "parsing a small parameter text for registered class '" + name + "' of " + rootname + " kills the process (" + how
                              + ") at stage '" + one_line(last_stage, 200) + "', text '" + one_line(last_text, 200) + "'");
        }
      else if (diff || reparse_null || mut_fail)
        status = "round-trip-differs";
      else if (same)
        status = "same";
      else
        status = "not-constructible-without-external-data (" + one_line(notc_why, 120) + ")";
      std::fprintf(g_cls,
                   "%s | %s | constructed=%d same=%d diff=%d reparse_null=%d value_replacements: same=%d rejected=%d failed=%d\n",
                   cls.c_str(),
                   status.c_str(),
                   same + diff + reparse_null,
                   same,
                   diff,
                   reparse_null,
                   mut_same,
                   mut_rej,
                   mut_fail);
    }
}

// ------------------------------------------------------------------------------------------------ headers written by the library
static std::string
slurp(const std::string& fn)
{
  std::ifstream f(fn.c_str(), std::ios::binary);
  std::ostringstream s;
  s << f.rdbuf();
  return s.str();
}

static std::vector<std::string>
write_library_headers(const std::string& dir, vh::Rng& rng)
{
  std::vector<std::string> texts;
  mkdir(dir.c_str(), 0777);
  try
    {
      for (int k = 0; k < 3; ++k)
        {
          shared_ptr<Scanner> scanner = vh::make_scanner(2 * rng.range(4, 16), rng.range(2, 5), k == 2 ? 5 : -1);
          shared_ptr<ProjDataInfo> pdi = vh::make_pdi(scanner, 1, scanner->get_num_rings() - 1, scanner->get_num_detectors_per_ring() / 2,
                                                      scanner->get_num_detectors_per_ring() / 2 - 1, false, k == 2 ? 1 : 0);
          shared_ptr<ExamInfo> exam(new ExamInfo);
          exam->imaging_modality = ImagingModality::PT;
          const std::string base = dir + "/written_" + std::to_string(k);
          {
            ProjDataInterfile pd(exam, pdi, base + "_proj");
          }
          texts.push_back(slurp(base + "_proj.hs"));
          shared_ptr<VoxelsOnCartesianGrid<float>> image = vh::make_image(*pdi, 1.F, rng.range(3, 9), rng.range(2, 5));
          image->fill(1.F);
          OutputFileFormat<DiscretisedDensity<3, float>>::default_sptr()->write_to_file(base + "_image", *image);
          texts.push_back(slurp(base + "_image.hv"));
        }
    }
  catch (std::exception& e)
    {
      std::fprintf(g_orc, "NOTE could not write library headers: %s\n", one_line(e.what()).c_str());
    }
  return texts;
}

// build a probe table from a header written by the library: every "key := value" line becomes a key of the kind of its value
static void
table_from_text(Table& t, const std::string& text, vh::Rng& rng)
{
  t.reset();
  std::map<std::string, int> vec_size;
  std::map<std::string, std::string> sample_value;
  std::vector<std::string> keys_in_order;
  const std::vector<std::string> lines = split_lines(text);
  for (const std::string& l : lines)
    {
      const std::size_t as = l.find(":=");
      if (as == std::string::npos)
        continue;
      std::string key = t.kp->kw(l);
      const std::string sk = t.kp->stdk(key);
      if (sk.empty() || sk[0] == ';')
        continue;
      const std::size_t lb = l.find('[');
      int idx = 0;
      if (lb != std::string::npos && lb < as)
        idx = std::atoi(l.c_str() + lb + 1);
      if (!sample_value.count(sk))
        keys_in_order.push_back(key);
      std::string v = l.substr(as + 2);
      while (!v.empty() && (v[0] == ' ' || v[0] == '\t'))
        v.erase(0, 1);
      sample_value[sk] = v;
      vec_size[sk] = std::max(vec_size[sk], idx);
    }
  bool first = true;
  for (const std::string& key : keys_in_order)
    {
      const std::string sk = t.kp->stdk(key);
      const std::string v = sample_value[sk];
      Slot p;
      p.key = key;
      const bool is_int = !v.empty() && v.find_first_not_of("0123456789-") == std::string::npos;
      const bool is_list = !v.empty() && v[0] == '{';
      const bool int_list = is_list && v.find_first_not_of("0123456789-{}, ") == std::string::npos;
      if (first)
        {
          p.action = "start";
          p.kind = K_NONE;
          first = false;
        }
      else if (sk.substr(0, 3) == "end" && v.empty())
        {
          p.action = "stop";
          p.kind = K_NONE;
        }
      else if (v.empty() && rng.coin())
        {
          p.action = "ignore";
          p.kind = K_NONE;
        }
      else if (vec_size[sk] > 0)
        {
          const int n = vec_size[sk] + rng.range(0, 1);
          if (int_list || (is_int && rng.coin()))
            {
              p.kind = int_list ? K_VILIST : K_VINT;
              p.il.assign(n, 0);
              p.vl.assign(n, std::vector<int>());
            }
          else
            {
              p.kind = K_VASCII;
              p.sl.assign(n, "");
            }
        }
      else if (int_list)
        p.kind = K_ILIST;
      else if (is_list)
        p.kind = K_SLIST;
      else if (is_int)
        p.kind = rng.range(0, 3) == 0 ? K_BOOL : K_INT;
      else
        p.kind = K_ASCII;
      t.add(p);
    }
}

// a random probe table
static void
random_table(Table& t, vh::Rng& rng, std::vector<std::string>& keys)
{
  t.reset();
  keys.clear();
  Slot p;
  p.kind = K_NONE;
  p.action = "start";
  p.key = rng.coin() ? "Random Table Parameters" : "!INTERFILE";
  t.add(p);
  const int n = rng.range(2, 9);
  for (int k = 0; k < n; ++k)
    {
      p = Slot();
      p.key = rng.range(0, 2) == 0 ? equivalent_variant(rng, random_key(rng)) : random_key(rng);
      p.kind = static_cast<Kind>(rng.range(1, 9));
      const int vs = rng.range(0, 4);
      switch (p.kind)
        {
        case K_INT:
          p.i = rng.range(-5, 5);
          break;
        case K_BOOL:
          p.b = rng.coin();
          break;
        case K_ASCII:
          p.s = rng.coin() ? "" : WORDS[rng.range(0, NWORDS - 1)];
          break;
        case K_CHOICE:
          p.values = { WORDS[rng.range(0, 9)], WORDS[rng.range(10, 19)], "Two Words", "two_words" };
          p.choice = rng.range(-1, 3);
          break;
        case K_ILIST:
          for (int j = rng.range(0, 3); j > 0; --j)
            p.il.push_back(rng.range(-9, 9));
          break;
        case K_SLIST:
          for (int j = rng.range(0, 3); j > 0; --j)
            p.sl.push_back(WORDS[rng.range(0, NWORDS - 1)]);
          break;
        case K_VINT:
          p.il.assign(vs, rng.range(-3, 3));
          break;
        case K_VASCII:
          p.sl.assign(vs, rng.coin() ? "" : "w");
          break;
        case K_VILIST:
          p.vl.assign(vs, std::vector<int>(rng.range(0, 2), 1));
          break;
        default:
          break;
        }
      if (rng.range(0, 9) == 0)
        {
          p.kind = K_NONE;
          p.action = "ignore";
        }
      t.add(p);
      keys.push_back(p.key);
    }
  p = Slot();
  p.kind = K_NONE;
  p.action = "stop";
  p.key = "END";
  t.add(p);
  // aliases: the TARGET is given in any spelling equivalent to the registered one (the registered spelling itself may have
  // capitals, underscores, '!', repeated or leading/trailing blanks), the alias in any spelling too
  if (keys.size() >= 2)
    {
      const int nalias = rng.range(1, 3);
      for (int a = 0; a < nalias; ++a)
        {
          const std::string& target = keys[rng.range(0, static_cast<int>(keys.size()) - 1)];
          std::string target_spelling;
          switch (rng.range(0, 3))
            {
            case 0:
              target_spelling = target; // as registered
              break;
            case 1:
              target_spelling = t.kp->stdk(target); // standardised
              break;
            default:
              target_spelling = equivalent_variant(rng, target);
            }
          static const char* alias_names[] = { "alias one", "second alias", "Old_Name", "%TOF alias", "Number of  THINGS (old)" };
          std::string al = rng.range(0, 2) == 0 ? std::string(alias_names[rng.range(0, 4)]) : random_key(rng) + " alt";
          if (rng.coin())
            al = equivalent_variant(rng, al);
          t.alias(target_spelling, al, rng.coin());
        }
      if (rng.range(0, 5) == 0) // an alias of an alias, an alias of a keyword that does not exist
        t.alias(rng.coin() ? std::string("alias one") : std::string("no such keyword"), "indirect alias", rng.coin());
    }
}

// the spelling used for the keyword of slot `s` in a generated text: the registered one, or (1 in 3, if there is one) any
// spelling of one of its aliases
static std::string
spelling_for(Table& t, const Slot& s, vh::Rng& rng)
{
  const std::vector<std::string> al = t.aliases_of(s.stdkey);
  if (al.empty() || rng.range(0, 2) != 0)
    return s.key;
  const std::string& a = al[rng.range(0, static_cast<int>(al.size()) - 1)];
  return rng.coin() ? a : equivalent_variant(rng, a);
}

// a text with one line per key of the table (values mostly well formed for the kind of the key)
static std::string
text_for_table(Table& t, vh::Rng& rng)
{
  std::string start, stop, body;
  for (Slot* s : t.order)
    {
      if (s->action == "start")
        start += s->key + " :=\n";
      else if (s->action == "stop")
        stop += s->key + " :=\n";
      else if (s->action == "ignore")
        body += s->key + " :=\n";
      else
        {
          std::ostringstream v;
          const int n = std::max<int>(1, std::max(s->il.size(), std::max(s->sl.size(), s->vl.size())));
          const std::string skey = spelling_for(t, *s, rng);
          switch (s->kind)
            {
            case K_INT:
              body += skey + " := " + std::to_string(rng.range(-99, 99)) + "\n";
              break;
            case K_BOOL:
              body += skey + " := " + std::to_string(rng.range(0, 2)) + "\n";
              break;
            case K_ASCII:
              body += skey + " := " + WORDS[rng.range(0, NWORDS - 1)] + (rng.coin() ? " and more" : "") + "\n";
              break;
            case K_CHOICE:
              body += skey + " := " + (s->values.empty() ? std::string("x") : equivalent_variant(rng, s->values[rng.range(0, static_cast<int>(s->values.size()) - 1)])) + "\n";
              break;
            case K_ILIST:
              body += skey + " := {" + std::to_string(rng.range(-9, 9)) + ", " + std::to_string(rng.range(0, 99)) + "}\n";
              break;
            case K_SLIST:
              body += skey + " := {" + WORDS[rng.range(0, NWORDS - 1)] + "," + WORDS[rng.range(0, NWORDS - 1)] + " z}\n";
              break;
            case K_VINT:
              body += skey + "[" + std::to_string(rng.range(1, n)) + "] := " + std::to_string(rng.range(-99, 99)) + "\n";
              break;
            case K_VASCII:
              body += skey + "[" + std::to_string(rng.range(1, n)) + "] := " + WORDS[rng.range(0, NWORDS - 1)] + "\n";
              break;
            case K_VILIST:
              body += skey + "[" + std::to_string(rng.range(1, n)) + "] := "
                      + (rng.coin() ? std::to_string(rng.range(1, 64)) : "{" + std::to_string(rng.range(1, 9)) + "," + std::to_string(rng.range(1, 9)) + "}") + "\n";
              break;
            default:
              break;
            }
        }
    }
  return start + body + stop;
}


// ------------------------------------------------------------------------------------------------ aliases registered by the library
// Every `add_alias_key("<target>", "<alias>")` call with literal arguments in the library sources (scanned at run time, so a
// newly registered alias is picked up).  Calls whose arguments are not literals, or that sit in a class the harness has no
// driver for, are listed in the .classes file (not failed).
struct LibAlias
{
  std::string file, target, alias;
};
static std::vector<LibAlias> g_lib_aliases;
static std::vector<std::string> g_lib_alias_notes;

static void
scan_dir_for_aliases(const std::string& dir, int depth)
{
  DIR* d = opendir(dir.c_str());
  if (!d)
    return;
  std::vector<std::string> names;
  while (struct dirent* e = readdir(d))
    if (e->d_name[0] != '.')
      names.push_back(e->d_name);
  closedir(d);
  std::sort(names.begin(), names.end());
  static const std::regex call("add_alias_key\\s*\\(\\s*(\"(?:[^\"\\\\]|\\\\.)*\"|[A-Za-z_][A-Za-z0-9_:]*)\\s*,\\s*(\"(?:[^\"\\\\]|\\\\.)*\"|[A-Za-z_][A-Za-z0-9_:]*)");
  for (const std::string& n : names)
    {
      const std::string path = dir + "/" + n;
      struct stat st;
      if (stat(path.c_str(), &st) != 0)
        continue;
      if (S_ISDIR(st.st_mode))
        {
          if (depth < 3 && n != "test" && n != "recon_test" && n != "swig" && n != "include")
            scan_dir_for_aliases(path, depth + 1);
          continue;
        }
      if (n.size() < 4 || n.substr(n.size() - 4) != ".cxx" || n == "KeyParser.cxx")
        continue;
      std::ifstream f(path.c_str());
      std::ostringstream ss;
      ss << f.rdbuf();
      const std::string text = ss.str();
      for (std::sregex_iterator it(text.begin(), text.end(), call), end; it != end; ++it)
        {
          const std::string a = (*it)[1].str(), b = (*it)[2].str();
          if (a[0] == '"' && b[0] == '"')
            g_lib_aliases.push_back({ n, a.substr(1, a.size() - 2), b.substr(1, b.size() - 2) });
          else
            g_lib_alias_notes.push_back("alias-site " + n + ": add_alias_key(" + a + ", " + b + ") | arguments are not string literals: not driven");
        }
    }
}

// outcome of parsing a projection-data header: "rejected", or everything the header object and the ProjDataInfo built from it print
static std::string
pdfs_outcome(const std::string& text)
{
  try
    {
      InterfilePDFSHeader hdr;
      std::istringstream in(text);
      if (!hdr.parse(in))
        return "rejected";
      std::string r = "accepted\n" + hdr.parameter_info();
      if (hdr.data_info_sptr)
        r += "\n--- ProjDataInfo\n" + hdr.data_info_sptr->parameter_info();
      return r;
    }
  catch (std::bad_alloc&)
    {
      throw;
    }
  catch (std::exception&)
    {
      return "rejected";
    }
}

static std::string
first_difference(const std::string& a, const std::string& b);

// ORACLE "aliases resolve to their target" for the aliases of InterfilePDFSHeader: a header that spells a keyword with (any
// spelling of) its alias parses to the same object as the header that uses the target keyword.
static void
library_alias_oracle(const std::string& tof_header, vh::Rng& rng, bool thorough)
{
  Probe kp;
  std::vector<std::string> lines = split_lines(tof_header);
  if (lines.size() < 3)
    {
      oracle_fail("library alias oracle: no TOF projection-data header was written by the library");
      return;
    }
  std::set<std::string> done;
  for (const LibAlias& la : g_lib_aliases)
    {
      if (la.file != "InterfileHeader.cxx")
        {
          g_lib_alias_notes.push_back("alias-site " + la.file + ": '" + la.alias + "' -> '" + la.target + "' | no driver for this class in the harness"
                                      + (la.file == "CListModeDataROOT.cxx" ? " (not compiled: HAVE_CERN_ROOT is off)" : ""));
          continue;
        }
      if (!done.insert(kp.stdk(la.alias)).second)
        continue;
      // the line of the header that sets the target keyword (inserted before the last line if the header does not have it)
      int li = -1;
      for (std::size_t k = 0; k < lines.size(); ++k)
        if (lines[k].find(":=") != std::string::npos && kp.stdk(kp.kw(lines[k])) == kp.stdk(la.target))
          li = static_cast<int>(k);
      std::vector<std::string> base = lines;
      std::string base_value = "1";
      if (li < 0)
        {
          li = static_cast<int>(base.size()) - 1;
          base.insert(base.begin() + li, la.target + " := 1");
        }
      else
        {
          base_value = base[li].substr(base[li].find(":=") + 2);
          while (!base_value.empty() && base_value[0] == ' ')
            base_value.erase(0, 1);
        }
      std::vector<std::string> values = { base_value };
      {
        char* end = nullptr;
        const double d = std::strtod(base_value.c_str(), &end);
        if (end != base_value.c_str() && *end == '\0')
          {
            const bool is_int = base_value.find_first_of(".eE") == std::string::npos;
            values.push_back(is_int ? std::to_string(static_cast<long>(d) + 1) : std::to_string(d * 1.25 + 3));
            values.push_back(is_int ? std::to_string(static_cast<long>(d) * 2 + 1) : std::to_string(d / 2));
          }
      }
      int accepted = 0;
      const int nspell = thorough ? 12 : 4;
      for (const std::string& v : values)
        {
          std::vector<std::string> T = base;
          T[li] = la.target + " := " + v;
          const std::string oT = pdfs_outcome(join_lines(T));
          if (oT != "rejected")
            ++accepted;
          for (int sp = 0; sp < nspell; ++sp)
            {
              const std::string spelling = sp == 0 ? la.alias : equivalent_variant(rng, la.alias);
              std::vector<std::string> A = base;
              A[li] = spelling + (rng.coin() ? " := " : ":=") + v;
              const std::string oA = pdfs_outcome(join_lines(A));
              ++g_oracle_checks;
              if (oA != oT)
                oracle_fail("library alias: InterfilePDFSHeader registers '" + la.alias + "' as alias of '" + la.target + "', but a TOF header with the line '"
                            + A[li] + "' does not parse to the same object as the header with '" + T[li] + "': "
                            + (oT == "rejected" ? std::string("target spelling rejected, alias spelling accepted")
                                                : oA == "rejected" ? std::string("alias spelling rejected, target spelling accepted")
                                                                   : first_difference(oT, oA)));
            }
        }
      ++g_oracle_checks;
      if (accepted == 0)
        oracle_fail("library alias oracle is vacuous for '" + la.alias + "': no header with '" + la.target + "' was accepted");
      // the value has to be used, not just tolerated: two accepted values give different objects
      if (values.size() > 1)
        {
          std::vector<std::string> A1 = base, A2 = base;
          A1[li] = la.alias + " := " + values[0];
          A2[li] = la.alias + " := " + values[1];
          const std::string o1 = pdfs_outcome(join_lines(A1)), o2 = pdfs_outcome(join_lines(A2));
          ++g_oracle_checks;
          if (o1 != "rejected" && o2 != "rejected" && o1 == o2)
            oracle_fail("library alias: the value given with the alias '" + la.alias + "' is not used: '" + A1[li] + "' and '" + A2[li]
                        + "' give the same object");
        }
    }
}

// in a text for table `t`: spell some keywords with (a variant of) one of their aliases
static std::string
substitute_aliases(Table& t, const std::string& text, vh::Rng& rng)
{
  std::vector<std::string> lines = split_lines(text);
  for (std::string& l : lines)
    {
      const std::size_t as = l.find(":=");
      if (as == std::string::npos || l.find('\\') != std::string::npos)
        continue;
      const std::string k = t.kp->kw(l);
      const std::vector<std::string> al = t.aliases_of(t.kp->stdk(k));
      if (al.empty() || k.size() > as || rng.range(0, 2) == 0)
        continue;
      const std::string& a = al[rng.range(0, static_cast<int>(al.size()) - 1)];
      l = (rng.coin() ? a : equivalent_variant(rng, a)) + l.substr(k.size());
    }
  return join_lines(lines);
}

// ------------------------------------------------------------------------------------------------ every vectorised key type
struct VecProbe : public KeyParser
{
  std::vector<int> vi;
  std::vector<unsigned int> vu;
  std::vector<unsigned long> vul;
  std::vector<float> vf;
  std::vector<double> vd;
  std::vector<std::string> vs;
  std::vector<std::vector<int>> vil;
  std::vector<std::vector<double>> vdl;
  explicit VecProbe(int n)
  {
    vi.assign(n, -7);
    vu.assign(n, 7U);
    vul.assign(n, 77UL);
    vf.assign(n, 0.5F);
    vd.assign(n, 0.25);
    vs.assign(n, "u");
    vil.assign(n, std::vector<int>(1, 9));
    vdl.assign(n, std::vector<double>(2, 1.5));
    add_start_key("Vec Parameters");
    add_vectorised_key("v int", &vi);
    add_vectorised_key("v unsigned", &vu);
    add_vectorised_key("v unsigned long", &vul);
    add_vectorised_key("v float", &vf);
    add_vectorised_key("v double", &vd);
    add_vectorised_key("v string", &vs);
    add_vectorised_key("v int list", &vil);
    add_vectorised_key("v double list", &vdl);
    add_stop_key("End Vec Parameters");
  }
  template <class T>
  static std::string one(const T& x)
  {
    std::ostringstream o;
    o << x;
    return o.str();
  }
  template <class T>
  static std::string one(const std::vector<T>& x)
  {
    std::ostringstream o;
    o << "(";
    for (std::size_t k = 0; k < x.size(); ++k)
      o << (k ? " " : "") << x[k];
    o << ")";
    return o.str();
  }
  template <class V>
  static std::vector<std::string> elems(const V& v)
  {
    std::vector<std::string> r;
    for (auto& x : v)
      r.push_back(one(x));
    return r;
  }
  std::vector<std::vector<std::string>> dump() const
  {
    return { elems(vi), elems(vu), elems(vul), elems(vf), elems(vd), elems(vs), elems(vil), elems(vdl) };
  }
};

static void
vectorised_oracle(vh::Rng& rng, bool thorough)
{
  static const char* keys[] = { "v int", "v unsigned", "v unsigned long", "v float", "v double", "v string", "v int list", "v double list" };
  static const char* value_text[] = { "41", "42", "43", "2.5", "-0.125", "some text", "{3, 4}", "{0.5, 8}" };
  static const char* value_elem[] = { "41", "42", "43", "2.5", "-0.125", "some text", "(3 4)", "(0.5 8)" };
  const int sizes[] = { 0, 1, 3, 4 };
  for (int n : sizes)
    for (int type = 0; type < 8; ++type)
      {
        std::vector<std::string> idx = { "0", "-1", "-2", "1", std::to_string(n), std::to_string(n + 1), std::to_string(n + 2), "-2147483648",
                                         "2147483647", " 2 ", "+1", std::to_string(rng.range(-5, n + 5)) };
        if (thorough)
          for (int k = 0; k < 8; ++k)
            idx.push_back(std::to_string(rng.range(-1000, 1000)));
        for (const std::string& ix : idx)
          {
            VecProbe p(n);
            const std::vector<std::vector<std::string>> before = p.dump();
            const std::string line = std::string(keys[type]) + "[" + ix + "] := " + value_text[type];
            std::string tag;
            try
              {
                std::istringstream is("Vec Parameters :=\n" + line + "\nEnd Vec Parameters :=\n");
                tag = p.parse(is) ? "ok1" : "ok0";
              }
            catch (std::bad_alloc&)
              {
                tag = "bad_alloc"; // (the address space of this process is limited, see main)
              }
            catch (std::exception&)
              {
                tag = "err";
              }
            const int i = std::atoi(ix.c_str());
            std::vector<std::vector<std::string>> expect = before;
            const bool in_range = i >= 1 && i <= n;
            if (in_range)
              expect[type][i - 1] = value_elem[type];
            ++g_oracle_checks;
            if (p.dump() != expect || tag != (in_range ? "ok1" : "err"))
              oracle_fail("vectorised key (" + std::string(keys[type]) + "): the line '" + line + "' on vectors of size " + std::to_string(n) + " answered " + tag
                          + (p.dump() != expect ? " and the stored values are not 'element " + ix + " (1-based) replaced, nothing else changed'" : "")
                          + "; expected " + (in_range ? "ok1" : "err (index outside 1..size)"));
          }
      }
}

// ------------------------------------------------------------------------------------------------ small files for classes that need external data
static std::string g_fixture_dir;

static void
spit(const std::string& fn, const std::string& content)
{
  std::ofstream f(fn.c_str(), std::ios::binary);
  f << content;
}

static void
write_class_fixtures(const std::string& dir)
{
  mkdir(dir.c_str(), 0777);
  try
    {
      shared_ptr<Scanner> scanner = vh::make_scanner(16, 3);
      shared_ptr<ProjDataInfo> pdi = vh::make_pdi(scanner, 1, 2, 8, 7, false, 0);
      shared_ptr<ExamInfo> exam(new ExamInfo);
      exam->imaging_modality = ImagingModality::PT;
      {
        ProjDataInterfile pd(exam, pdi, dir + "/fx_proj");
        for (int seg = pd.get_min_segment_num(); seg <= pd.get_max_segment_num(); ++seg)
          {
            SegmentByView<float> sv = pd.get_empty_segment_by_view(seg);
            sv.fill(1.F);
            pd.set_segment(sv);
          }
      }
      shared_ptr<VoxelsOnCartesianGrid<float>> image = vh::make_image(*pdi, 1.F, 7, 5);
      image->fill(1.F);
      OutputFileFormat<DiscretisedDensity<3, float>>::default_sptr()->write_to_file(dir + "/fx_image", *image);
      spit(dir + "/fx_frames.fdef", "1 60\n1 120\n1 300\n");
      spit(dir + "/fx_plasma.if", "4\n0 0 0\n30 10 12\n200 5 6\n480 2 3\n");
      g_fixture_dir = dir;
    }
  catch (std::exception& e)
    {
      std::fprintf(g_orc, "NOTE could not write the class fixtures: %s\n", one_line(e.what()).c_str());
    }
}

static std::string
with_dir(std::string t)
{
  std::size_t p;
  while ((p = t.find("@D@")) != std::string::npos)
    t.replace(p, 3, g_fixture_dir);
  return t;
}


// ------------------------------------------------------------------------------------------------ Interfile headers, keys in any order
// A valid single / dynamic / parametric Interfile image header over the keys that the Lean model has (lean/StirVerif/C17/Model.lean,
// `imageHeader0`), with INTEGER values for the float-valued keys, in the order of the library's writer
// (write_basic_interfile_image_header, interfile.cxx); `faults` plants one wrong value / index / missing line now and then.
struct GenHeader
{
  std::vector<std::string> lines;
  int T = 1, K = 1, nz = 1;
};

static GenHeader
gen_image_header(vh::Rng& rng, bool list_scaling, bool faults)
{
  GenHeader g;
  auto key = [&](const std::string& k) { return rng.range(0, 5) == 0 ? equivalent_variant(rng, k) : k; };
  auto as = [&]() { return std::string(rng.range(0, 4) == 0 ? ":=" : " := "); };
  const int kind = rng.range(0, 9); // 0-2 single, 3-5 dynamic, 6-8 parametric, 9 both
  g.T = (kind >= 3 && kind <= 5) ? rng.range(2, 4) : (kind == 9 ? 2 : 1);
  g.K = (kind >= 6 && kind <= 8) ? rng.range(2, 3) : (kind == 9 ? 2 : 1);
  const int nx = rng.range(1, 5), ny = rng.range(1, 5);
  g.nz = rng.range(1, 4);
  const int fault = faults ? rng.range(0, 24) : -1;
  std::vector<std::string>& l = g.lines;
  l.push_back("!INTERFILE  :=");
  if (rng.coin())
    l.push_back("!imaging modality := PT");
  l.push_back(key("!version of keys") + as() + (rng.range(0, 3) == 0 ? "3.3" : "STIR6.0"));
  l.push_back(key("name of data file") + as() + "hdr_data.v");
  l.push_back("!GENERAL DATA :=");
  l.push_back("!GENERAL IMAGE DATA :=");
  l.push_back(key("!type of data") + as() + (fault == 0 ? "Tomographic" : fault == 1 ? "no such type" : fault == 2 ? "Static" : "PET"));
  l.push_back(key("imagedata byte order") + as() + (rng.coin() ? "LITTLEENDIAN" : "BIGENDIAN"));
  if (rng.range(0, 3) != 0)
    l.push_back("!PET STUDY (General) :=");
  if (fault != 3)
    l.push_back(key("!PET data type") + as() + (fault == 4 ? "Emission" : "Image"));
  const bool as_float = rng.coin();
  l.push_back(key("!number format") + as() + (as_float ? "float" : "signed integer"));
  if (fault != 5)
    l.push_back(key("!number of bytes per pixel") + as() + (fault == 6 ? "0" : as_float ? "4" : "2"));
  if (fault != 7)
    l.push_back(key("number of dimensions") + as() + (fault == 8 ? "2" : fault == 9 ? "4" : fault == 10 ? "-1" : "3"));
  static const char* axis[] = { "x", "y", "z" };
  const int size[] = { nx, ny, g.nz };
  const int label_mode = rng.range(0, faults ? 9 : 4); // 0: no labels at all; 1..4: all three; else (faulty): some of them
  for (int d = 1; d <= 3; ++d)
    {
      const std::string ix = std::string(rng.range(0, 3) == 0 ? "[" : " [") + std::to_string(d) + "]";
      if (label_mode >= 1 && (label_mode <= 4 || rng.coin()))
        l.push_back(key("matrix axis label") + ix + as() + axis[d - 1]);
      if (!(fault == 11 && d == 2))
        l.push_back(key("!matrix size") + ix + as() + (fault == 12 && d == 3 ? std::string("0") : fault == 13 && d == 1 ? std::string("{2,2}") : std::to_string(size[d - 1])));
      l.push_back(key("scaling factor (mm/pixel)") + ix + as() + std::to_string(rng.range(1, 4)));
    }
  if (rng.coin())
    for (int d = 1; d <= 3; ++d)
      l.push_back(key("first pixel offset (mm)") + " [" + std::to_string(d) + "]" + as() + std::to_string(rng.range(-9, 9)));
  if (fault == 14)
    l.push_back("matrix size [4] := 2");
  if (fault != 15 || g.T > 1)
    l.push_back(key("number of time frames") + as() + (fault == 16 ? "0" : fault == 17 ? "-2" : std::to_string(g.T)));
  if (g.T > 1 || rng.range(0, 3) == 0)
    {
      int t = 0;
      for (int f = 1; f <= g.T + (fault == 18 ? 1 : 0); ++f)
        {
          const int d = 30 * rng.range(1, 4);
          l.push_back(key("image duration (sec)") + "[" + std::to_string(f) + "]" + as() + std::to_string(d));
          l.push_back(key("image relative start time (sec)") + "[" + std::to_string(f) + "]" + as() + std::to_string(t));
          t += d;
        }
    }
  const int W = rng.range(0, 5) == 0 ? 2 : 1;
  if (W > 1 || rng.coin())
    {
      l.push_back(key("number of energy windows") + as() + std::to_string(W));
      for (int w = 1; w <= W + (fault == 19 ? 1 : 0); ++w)
        {
          l.push_back(key("energy window lower level") + "[" + std::to_string(w) + "]" + as() + std::to_string(300 + 50 * w));
          l.push_back(key("energy window upper level") + "[" + std::to_string(w) + "]" + as() + std::to_string(600 + 50 * w));
        }
    }
  if (g.K > 1 || rng.range(0, 4) == 0)
    {
      l.push_back(key("number of image data types") + as() + (fault == 20 ? "-1" : std::to_string(g.K)));
      l.push_back(key("index nesting level") + as() + "{data type}");
      static const char* names[] = { "slope", "intercept", "third parameter", "fourth" };
      for (int k = 1; k <= g.K + (fault == 21 ? 1 : 0); ++k)
        l.push_back(key("image data type description") + "[" + std::to_string(k) + "]" + as() + names[k - 1]);
    }
  const int N = g.T * g.K;
  if (N > 1 || rng.coin() || list_scaling)
    for (int i = 1; i <= N + (fault == 22 ? 1 : 0); ++i)
      {
        std::string v = std::to_string(rng.range(1, 3));
        if (list_scaling && (i == 1 || rng.coin()))
          {
            v = "{";
            for (int z = 0; z < g.nz + (fault == 23 ? 1 : 0); ++z)
              v += (z ? "," : "") + std::to_string(z + 1 + i);
            v += "}";
          }
        l.push_back(key("image scaling factor") + "[" + std::to_string(i) + "]" + as() + v);
        if (fault != 24 || i != N)
          l.push_back(key("data offset in bytes") + "[" + std::to_string(i) + "]" + as() + std::to_string((i - 1) * nx * ny * g.nz * (as_float ? 4 : 2)));
      }
  l.push_back("!END OF INTERFILE :=");
  return g;
}

struct HdrResult
{
  std::string answer; // rej | err | ok <dump>
  std::string dump, tables_why;
  bool accepted = false;
};

static HdrResult
run_image_header(const std::string& text)
{
  HdrResult r;
  try
    {
      c17::ImgHdrProbe h;
      std::istringstream in(text);
      if (!h.parse(in))
        r.answer = "rej";
      else
        {
          r.accepted = true;
          r.dump = c17::image_dump(h);
          r.tables_why = c17::image_tables_check(h);
          r.answer = "ok " + r.dump;
        }
    }
  catch (std::bad_alloc&)
    {
      throw;
    }
  catch (std::exception&)
    {
      r.answer = "err";
    }
  return r;
}

static HdrResult
run_multi_header(const std::string& text)
{
  HdrResult r;
  try
    {
      MultipleDataSetHeader h;
      std::istringstream in(text);
      if (!h.parse(in))
        r.answer = "rej";
      else
        {
          r.accepted = true;
          std::vector<std::string> names;
          for (std::size_t k = 0; k < h.get_num_data_sets(); ++k)
            names.push_back(h.get_filename(static_cast<unsigned>(k)));
          r.dump = "i:" + std::to_string(h.get_num_data_sets()) + " vs:" + c17::strs(names);
          r.answer = "ok " + r.dump;
        }
    }
  catch (std::bad_alloc&)
    {
      throw;
    }
  catch (std::exception&)
    {
      r.answer = "err";
    }
  return r;
}

// ------------------------------------------------------------------------------------------------ copies of ParsingObjects
// A concrete ParsingObject (the real base class: copy constructor, operator=, parse, parameter_info) with members of the
// modelled kinds.  The Lean side gets the same key table through `cfg key` lines (po_describe_class).
struct ProbeObject : public ParsingObject
{
  int n;
  std::string name;
  bool flag;
  int mode;
  ASCIIlist_type values;
  std::vector<int> il;
  std::vector<std::string> sl;
  std::vector<int> vi;
  std::vector<std::string> vs;
  ProbeObject() { set_defaults(); }
  void set_defaults() override
  {
    n = 5;
    name = "default name";
    flag = false;
    mode = 1;
    values = { "first value", "Second_Value", "third" };
    il = { 1, 2 };
    sl = { "a", "b c" };
    vi = { 10, 20, 30 };
    vs = { "one", "two", "three" };
  }
  void initialise_keymap() override
  {
    parser.add_start_key("Probe Object");
    parser.add_key("n things", &n);
    parser.add_key("a name", &name);
    parser.add_key("flag", &flag);
    parser.add_key("mode", &mode, &values);
    parser.add_key("int list", &il);
    parser.add_key("string list", &sl);
    parser.add_vectorised_key("v ints", &vi);
    parser.add_vectorised_key("v names", &vs);
    parser.add_stop_key("End Probe Object");
  }
  std::string dump() const
  {
    std::ostringstream o;
    o << "i:" << n << " s:" << hexs(name) << " b:" << (flag ? 1 : 0) << " c:" << mode << " il:" << fmt_ints(il) << " sl:" << fmt_strs(sl) << " vi:" << fmt_ints(vi)
      << " vs:" << fmt_strs(vs);
    return o.str();
  }
};

static void
po_describe_class()
{
  emit("cfg reset", "ok");
  emit("cfg key start none " + hexs("Probe Object"), "ok");
  emit("cfg key set int " + hexs("n things") + " 5", "ok");
  emit("cfg key set ascii " + hexs("a name") + " " + hexs("default name"), "ok");
  emit("cfg key set bool " + hexs("flag") + " 0", "ok");
  emit("cfg key set choice " + hexs("mode") + " 1 " + hexs("first value") + " " + hexs("Second_Value") + " " + hexs("third"), "ok");
  emit("cfg key set ilist " + hexs("int list") + " 1 2", "ok");
  emit("cfg key set slist " + hexs("string list") + " " + hexs("a") + " " + hexs("b c"), "ok");
  emit("cfg key set vint " + hexs("v ints") + " 10 20 30", "ok");
  emit("cfg key set vascii " + hexs("v names") + " " + hexs("one") + " " + hexs("two") + " " + hexs("three"), "ok");
  emit("cfg key stop none " + hexs("End Probe Object"), "ok");
  emit("po reset", "ok");
}

static std::string
po_text(vh::Rng& rng)
{
  std::string t = rng.range(0, 11) == 0 ? "" : "Probe Object :=\n";
  for (int k = rng.range(1, 5); k > 0; --k)
    {
      switch (rng.range(0, 9))
        {
        case 0:
        case 1:
          t += "n things := " + std::to_string(rng.range(-99, 999));
          break;
        case 2:
          t += std::string("a name := ") + WORDS[rng.range(0, 20)] + (rng.coin() ? std::string(" ") + WORDS[rng.range(0, 20)] : "");
          break;
        case 3:
          t += "flag := " + std::to_string(rng.range(0, 2));
          break;
        case 4:
          t += std::string("mode := ") + (rng.range(0, 5) == 0 ? "no such mode" : rng.coin() ? "THIRD" : "first_value");
          break;
        case 5:
          t += "int list := {" + std::to_string(rng.range(0, 9)) + (rng.coin() ? ", " + std::to_string(rng.range(-9, 9)) : "") + "}";
          break;
        case 6:
          t += std::string("string list := {") + WORDS[rng.range(0, 20)] + (rng.coin() ? std::string(", ") + WORDS[rng.range(0, 20)] : "") + "}";
          break;
        case 7:
        case 8:
          t += "v ints[" + std::to_string(rng.range(0, 10) == 0 ? rng.range(-1, 5) : rng.range(1, 3)) + "] := " + std::to_string(rng.range(100, 999));
          break;
        default:
          t += "v names[" + std::to_string(rng.range(1, 3)) + "] := " + WORDS[rng.range(0, 20)];
        }
      t += "\n";
    }
  if (rng.range(0, 7) != 0)
    t += "End Probe Object :=\n";
  return t;
}

// ------------------------------------------------------------------------------------------------ main
int
main(int argc, char** argv)
{
  if (argc < 5)
    return 2;
  vh::quiet();
  static TextWriter sink(&g_sink);
  {
    TextWriterHandle h;
    h.set_warning_channel(&sink);
    h.set_error_channel(&sink);
    h.set_information_channel(&sink);
  }
  {
    // a defect that sizes a container by a number found in the input must end in std::bad_alloc, not in tens of GB being touched
    struct rlimit rl;
    rl.rlim_cur = rl.rlim_max = 4UL << 30;
    setrlimit(RLIMIT_AS, &rl);
  }
  const uint64_t seed = std::strtoull(argv[1], nullptr, 10);
  vh::Rng rng(seed * 1315423911ULL + 17);
  const bool thorough = std::string(argv[2]) == "thorough";
  g_ops = std::fopen(argv[3], "w");
  g_out = std::fopen(argv[4], "w");
  g_orc = std::fopen((std::string(argv[4]) + ".oracle").c_str(), "w");
  g_cls = std::fopen((std::string(argv[4]) + ".classes").c_str(), "w");
  {
    // the library writes some diagnostics straight to std::cerr (with bytes of the input): keep them out of the
    // check's (UTF-8) console, in a log file next to the results
    const int lfd = open((std::string(argv[4]) + ".log").c_str(), O_WRONLY | O_CREAT | O_TRUNC, 0666);
    if (lfd >= 0)
      {
        dup2(lfd, 1);
        dup2(lfd, 2);
      }
  }
  std::string outdir = argv[3];
  outdir = outdir.substr(0, outdir.find_last_of('/') == std::string::npos ? 0 : outdir.find_last_of('/'));
  if (outdir.empty())
    outdir = ".";
  outdir += "/c17";
  mkdir(outdir.c_str(), 0777);
  {
    // aliases registered in the library sources; small data files for the classes that need external data
    const char* cfg = std::getenv("STIR_CONFIG_DIR");
    std::string srcdir = cfg ? std::string(cfg) : std::string("/repo/src/config");
    while (!srcdir.empty() && srcdir.back() == '/')
      srcdir.erase(srcdir.size() - 1);
    srcdir = srcdir.substr(0, srcdir.find_last_of('/') == std::string::npos ? 0 : srcdir.find_last_of('/'));
    scan_dir_for_aliases(srcdir, 0);
    write_class_fixtures(outdir + "/fixtures");
  }

  // ================================================================ 1. every registered parsable class (oracle)
  {
    typedef DiscretisedDensity<3, float> D;
    const int nmut = thorough ? 60 : 12;
    probe_root<DataProcessor<D>>("DataProcessor", rng, nmut);
    probe_root<GeneralisedPrior<D>>("GeneralisedPrior", rng, nmut);
    probe_root<GeneralisedObjectiveFunction<D>>("GeneralisedObjectiveFunction", rng, nmut);
    probe_root<GeneralisedObjectiveFunction<ParametricVoxelsOnCartesianGrid>>("GeneralisedObjectiveFunction_Parametric", rng, nmut);
    probe_root<ProjectorByBinPair>("ProjectorByBinPair", rng, nmut);
    probe_root<ForwardProjectorByBin>("ForwardProjectorByBin", rng, nmut);
    probe_root<BackProjectorByBin>("BackProjectorByBin", rng, nmut);
    probe_root<ProjMatrixByBin>("ProjMatrixByBin", rng, nmut);
    probe_root<BinNormalisation>("BinNormalisation", rng, nmut);
    probe_root<OutputFileFormat<D>>("OutputFileFormat", rng, nmut);
    probe_root<OutputFileFormat<DynamicDiscretisedDensity>>("OutputFileFormat_Dynamic", rng, nmut);
    probe_root<OutputFileFormat<ParametricVoxelsOnCartesianGrid>>("OutputFileFormat_Parametric", rng, nmut);
    probe_root<Shape3D>("Shape3D", rng, nmut);
    probe_root<Reconstruction<D>>("Reconstruction", rng, nmut);
    probe_root<Reconstruction<ParametricVoxelsOnCartesianGrid>>("Reconstruction_Parametric", rng, nmut);
    probe_root<ProjDataRebinning>("ProjDataRebinning", rng, nmut);
    probe_root<ScatterSimulation>("ScatterSimulation", rng, nmut);
    probe_root<KineticModel>("KineticModel", rng, nmut);
    probe_root<SinglesRates>("SinglesRates", rng, nmut);
  }

  // ================================================================ 2. keyword functions on library-written lines (differential)
  std::vector<std::string> header_texts = write_library_headers(outdir, rng);
  std::vector<std::string> library_texts = header_texts;
  {
    // a deterministic sample of the class texts
    std::sort(g_library_texts.begin(), g_library_texts.end());
    g_library_texts.erase(std::unique(g_library_texts.begin(), g_library_texts.end()), g_library_texts.end());
    for (auto& t : g_library_texts)
      library_texts.push_back(t);
  }
  {
    Probe kp;
    std::set<std::string> seen;
    std::vector<std::string> keywords;
    for (const std::string& text : library_texts)
      for (const std::string& l : split_lines(text))
        {
          if (l.find('\\') != std::string::npos || !seen.insert(l).second)
            continue;
          emit("kw " + hexs(l), hexs(kp.kw(l)));
          const std::string k = kp.kw(l);
          emit("std " + hexs(k), hexs(kp.stdk(k)));
          if (!k.empty() && seen.insert("K" + k).second)
            keywords.push_back(k);
        }
    for (int j = 0; j < NWORDS; ++j)
      keywords.push_back(WORDS[j]);
    const int nvar = thorough ? 12 : 3;
    for (const std::string& k : keywords)
      for (int v = 0; v < nvar; ++v)
        {
          // ORACLE: variants differing only in case and runs of " \t_!" standardise to the same keyword; standardising is idempotent
          const std::string e = equivalent_variant(rng, k);
          emit("std " + hexs(e), hexs(kp.stdk(e)));
          ++g_oracle_checks;
          if (kp.stdk(e) != kp.stdk(k))
            oracle_fail("standardise_keyword('" + e + "') = '" + kp.stdk(e) + "' differs from standardise_keyword('" + k + "') = '"
                        + kp.stdk(k) + "'");
          ++g_oracle_checks;
          if (kp.stdk(kp.stdk(e)) != kp.stdk(e))
            oracle_fail("standardise_keyword is not idempotent on '" + e + "'");
          const std::string d = damaged_key(rng, k);
          std::string dd = d;
          dd.erase(std::remove(dd.begin(), dd.end(), '\0'), dd.end());
          emit("std " + hexs(dd), hexs(kp.stdk(dd)));
          emit("kw " + hexs(dd + " := 1"), hexs(kp.kw(dd + " := 1")));
        }
  }

  // ================================================================ 2b. aliases registered by the library itself (oracle)
  {
    ++g_oracle_checks;
    if (g_lib_aliases.empty())
      oracle_fail("no add_alias_key call found in the library sources (STIR_CONFIG_DIR/..): the library-alias oracle did not run");
    library_alias_oracle(header_texts.size() > 4 ? header_texts[4] : std::string(), rng, thorough);
    for (const std::string& n : g_lib_alias_notes)
      std::fprintf(g_cls, "%s\n", n.c_str());
    for (const LibAlias& la : g_lib_aliases)
      if (la.file == "InterfileHeader.cxx")
        std::fprintf(g_cls, "alias-site %s: '%s' -> '%s' | driven (InterfilePDFSHeader: any spelling of the alias parses to the same object as the target keyword)\n",
                     la.file.c_str(), la.alias.c_str(), la.target.c_str());
  }

  // ================================================================ 3. fixed probe table: differential + oracle
  {
    ProbeTable t(false);
    t.info();
    // --- directed lines
    const char* directed[] = { "number of things := 5",
                               "NUMBER__of !things:=6",
                               "nr of things := 8",
                               "Nr_Of_Things := 9",
                               "old name := from deprecated alias",
                               "a name :=   spaced   value  \t",
                               "a name :=",
                               "a name := ",
                               "a name",
                               "flag := 1",
                               "flag := 2",
                               "flag := 0",
                               "mode := second value",
                               "mode := FIRST_VALUE",
                               "mode := fourth",
                               "int list := {1,2,3}",
                               "int list := 7",
                               "int list := {1, 2",
                               "int list := {}",
                               "string list := {a, b}",
                               "string list := {a , b c ,d}",
                               "string list := {a, bc",
                               "string list := single  ",
                               "v ints[1] := 10",
                               "v ints[3] := 30",
                               "v ints[4] := 40",
                               "v ints[0] := 1",
                               "v ints := 2",
                               "v ints[-1] := 3",
                               "v ints[2 := 5",
                               "v names[2] := second name",
                               "v lists[2] := {6, 7}",
                               "v lists[1] := 64",
                               "number of things[1] := 3",
                               "GENERAL DATA :=",
                               "unknown key := 3",
                               ";number of things := 77",
                               "number of things := 99999999999",
                               "number of things := -2147483648",
                               "a:b := 1",
                               "number of things = 12",
                               "number of things : 13",
                               "number of things :: = 14" };
    for (const char* l : directed)
      t.do_parse(PROBE_START + l + "\n" + PROBE_STOP);
    t.do_parse("number of things := 1\n" + PROBE_STOP);       // start keyword missing
    t.do_parse(PROBE_START + "number of things := 21");       // no final newline, no stop key
    t.do_parse(PROBE_START + "a name := x\r\nflag := 1\r\n" + PROBE_STOP);
    t.do_parse(PROBE_START + "a name := con\\\ntinued\nflag := 0\n" + PROBE_STOP);
    t.do_parse(PROBE_START + "a name := foo\\"); // continuation backslash at end of input
    t.info();

    // --- every modelled vectorised key type x index 0 / negative / in range / size+1 / beyond / wrapping / decorated
    {
      const int vsizes[] = { 0, 1, 3, 4 };
      for (int vs : vsizes)
        {
          t = ProbeTable(false, vs);
          static const char* vkeys[] = { "v ints", "v names", "v lists" };
          static const char* vvals[] = { "55", "fifty five", "{5, 5}" };
          const std::vector<std::string> idx = { "0",  "-1", "-2", "1", std::to_string(vs), std::to_string(vs + 1), std::to_string(vs + 2), "-2147483648", "2147483647",
                                                 "2147483648", "4294967295", "4294967297", "-4294967295", "99999999999999999999", " 2 ", "+1", "", "x", "1x", "-" };
          for (int vk = 0; vk < 3; ++vk)
            for (const std::string& ix : idx)
              t.do_parse(PROBE_START + vkeys[vk] + "[" + ix + "] := " + vvals[vk] + "\n" + PROBE_STOP);
          t.info();
        }
      t = ProbeTable(false);
    }

    // --- seeded mutations of the table's own parameter_info()
    const int nmut = thorough ? 6000 : 1200;
    for (int k = 0; k < nmut; ++k)
      {
        if (k % 50 == 0)
          {
            t = ProbeTable(false, rng.range(0, 4));
          }
        std::string base = rng.range(0, 3) == 0 ? text_for_table(t, rng) : t.kp->parameter_info();
        if (rng.range(0, 3) == 0)
          base = substitute_aliases(t, base, rng);
        t.do_parse(mutate_text(rng, base, rng.range(0, 9) == 0));
        if (k % 10 == 0)
          t.info();
      }
  }

  // ================================================================ 4. tables derived from library-written headers, random tables
  {
    Table t;
    const int per_text = thorough ? 120 : 25;
    for (const std::string& text : header_texts)
      {
        table_from_text(t, text, rng);
        // the aliases that the library registers for keywords of this header (the keys keep the spelling of the header)
        for (const LibAlias& la : g_lib_aliases)
          if (t.find(t.kp->stdk(la.target)))
            t.alias(la.target, la.alias, true);
        t.do_parse(text);
        t.info();
        for (int k = 0; k < per_text; ++k)
          {
            t.do_parse(mutate_text(rng, rng.range(0, 2) == 0 ? substitute_aliases(t, text, rng) : text, false));
            if (k % 8 == 0)
              t.info();
          }
      }
    // a sample of class texts (nested blocks are just unknown / repeated keys for a flat table)
    const int nclass = std::min<int>(static_cast<int>(g_library_texts.size()), thorough ? 40 : 10);
    for (int c = 0; c < nclass; ++c)
      {
        const std::string& text = g_library_texts[rng.range(0, static_cast<int>(g_library_texts.size()) - 1)];
        table_from_text(t, text, rng);
        t.do_parse(text);
        for (int k = 0; k < per_text / 2; ++k)
          t.do_parse(mutate_text(rng, text, false));
        t.info();
      }
    std::vector<std::string> keys;
    const int ntab = thorough ? 600 : 160;
    for (int c = 0; c < ntab; ++c)
      {
        random_table(t, rng, keys);
        t.info();
        for (int k = 0; k < 12; ++k)
          {
            std::string base = rng.coin() ? text_for_table(t, rng) : t.kp->parameter_info();
            if (rng.coin())
              base = substitute_aliases(t, base, rng);
            t.do_parse(rng.range(0, 3) == 0 ? base : mutate_text(rng, base, rng.range(0, 9) == 0));
          }
        t.info();
      }
  }

  // ================================================================ 4b. header-declared counts size the tables of the header
  // `number of dimensions := n` etc. run set_variable() and then resize their tables to the count (InterfileHeader::read_matrix_info,
  // read_frames_info, read_num_energy_windows, MultipleDataSetHeader::read_num_data_sets).  op: count <current value> x<line>
  // answer: number of elements of the table afterwards, `err` if an exception left the parser (negative count).
  {
    struct CountKey
    {
      const char* key;
      int current;
      int which;
    };
    static const CountKey keys[] = { { "number of dimensions", 2, 0 }, { "number of time frames", 1, 1 }, { "number of energy windows", 1, 2 },
                                     { "total number of data sets", 0, 3 } };
    static const char* cvalues[] = { "0", "1", "2", "3", "5", "17", "-1", "-3", "+4", " 12 ", "007", "3.9", "7x", "x7", "", "  ", "abc", "99999999999",
                                     "-99999999999", "1000", "4096", "{3}", "1e2", "-0" };
    const int ncv = sizeof(cvalues) / sizeof(cvalues[0]);
    const int n = thorough ? 1200 : 240;
    for (int k = 0; k < n; ++k)
      {
        const CountKey& ck = keys[rng.range(0, 3)];
        std::string value = rng.range(0, 2) == 0 ? std::string(cvalues[rng.range(0, ncv - 1)]) : std::to_string(rng.range(-4, 3000));
        const std::string line = (rng.range(0, 3) == 0 ? equivalent_variant(rng, ck.key) : std::string(ck.key)) + (rng.coin() ? " := " : ":=") + value;
        std::string ans;
        try
          {
            if (ck.which == 3)
              {
                MultipleDataSetHeader h;
                std::istringstream in("Multi :=\n" + line + "\nEnd :=\n");
                h.parse(in);
                ans = std::to_string(h.get_num_data_sets());
              }
            else
              {
                InterfileImageHeader hdr;
                std::istringstream in("!INTERFILE :=\n" + line + "\n!END OF INTERFILE :=\n");
                hdr.parse(in);
                std::size_t sz = 0;
                bool same = true;
                if (ck.which == 0)
                  {
                    sz = hdr.matrix_size.size();
                    same = hdr.matrix_labels.size() == sz && hdr.pixel_sizes.size() == sz && static_cast<std::size_t>(std::max(0, hdr.num_dimensions)) == sz;
                  }
                else if (ck.which == 1)
                  {
                    sz = hdr.data_offset_each_dataset.size();
                    same = hdr.image_scaling_factors.size() == sz;
                  }
                else
                  {
                    sz = hdr.lower_en_window_thresholds.size();
                    same = hdr.upper_en_window_thresholds.size() == sz && static_cast<std::size_t>(std::max(0, hdr.num_energy_windows)) == sz;
                  }
                ans = std::to_string(sz);
                ++g_oracle_checks;
                if (!same)
                  oracle_fail("Interfile header: the tables sized by '" + std::string(ck.key) + "' have different numbers of elements after the line '" + line + "'");
              }
          }
        catch (std::bad_alloc&)
          {
            throw;
          }
        catch (std::exception&)
          {
            ans = "err";
          }
        emit("count " + std::to_string(ck.current) + " " + hexs(line), ans);
      }
  }

  // ================================================================ 4c. per-segment lists of a projection-data header
  // op: pdfsseg <S> <axial positions…> | <min ring differences…>|- | <max ring differences…>|-     ("-": the key is not in the header)
  // answer: rej (parse()==false) | err (error() thrown) | ok <min segment> <max segment> of the ProjDataInfo that was built.
  // The header is the library's own (non-TOF) projection-data header with the four size-bearing lines replaced.
  // ORACLE: accepted => the number of segments equals 'matrix size [4]' and the length of every list that was given.
  if (header_texts.size() > 0)
    {
      const std::vector<std::string> base = split_lines(header_texts[0]);
      Probe kp;
      auto line_of = [&](const std::string& stdkey, int index) {
        for (std::size_t k = 0; k < base.size(); ++k)
          {
            const std::size_t as = base[k].find(":=");
            if (as == std::string::npos || kp.stdk(kp.kw(base[k])) != stdkey)
              continue;
            const std::size_t lb = base[k].find('[');
            const int ix = (lb != std::string::npos && lb < as) ? std::atoi(base[k].c_str() + lb + 1) : 0;
            if (ix == index)
              return static_cast<int>(k);
          }
        return -1;
      };
      const int l_seg = line_of("matrix size", 4), l_ax = line_of("matrix size", 2), l_min = line_of("minimum ring difference per segment", 0),
                l_max = line_of("maximum ring difference per segment", 0);
      auto fmt = [](const std::vector<int>& l) {
        std::string r = "{";
        for (std::size_t k = 0; k < l.size(); ++k)
          r += (k ? "," : "") + std::to_string(l[k]);
        return r + "}";
      };
      auto toks = [](const std::vector<int>& l) {
        std::string r;
        for (int v : l)
          r += " " + std::to_string(v);
        return r;
      };
      const int l_rings = line_of("number of rings", 0);
      const int rings = l_rings < 0 ? 3 : std::atoi(base[l_rings].c_str() + base[l_rings].find(":=") + 2);
      const int n = (l_seg < 0 || l_ax < 0 || l_min < 0 || l_max < 0) ? 0 : (thorough ? 3000 : 600);
      ++g_oracle_checks;
      if (n == 0)
        oracle_fail("per-segment lists: the library-written projection-data header lacks one of 'matrix size [4]', 'matrix size [2]', the ring-difference lists");
      for (int k = 0; k < n; ++k)
        {
          const int S = rng.range(1, 7);
          std::vector<int> ax, mn, mx;
          const int shape = rng.coin() ? 0 : rng.range(1, 3);
          for (int j = 0; j < S; ++j)
            {
              ax.push_back(rng.range(1, 5));
              if (shape == 0)
                { // span 1 around segment 0 (S odd) or shifted (S even), with the axial positions of a scanner of `rings` rings
                  // (anything else is refused later on by the ProjDataInfo constructor: "axial positions do not correspond ...")
                  mn.push_back(j - S / 2);
                  mx.push_back(j - S / 2);
                  ax.back() = std::max(1, rings - std::abs(j - S / 2));
                }
              else
                {
                  const int a = rng.range(-4, 4), w = rng.range(0, 3);
                  mn.push_back(a);
                  mx.push_back(shape == 3 ? -a : a + w);
                }
            }
          if (shape != 0 && rng.coin())
            { // make sure there is a segment 0
              const int j = rng.range(0, S - 1);
              mx[j] = -mn[j] >= mn[j] ? -mn[j] : mn[j];
              if (mx[j] + mn[j] != 0)
                mn[j] = mx[j] = 0;
            }
          // exactly one (sometimes two) of the lists gets another length; a list may be absent
          bool has_min = true, has_max = true;
          auto other_len = [&](std::vector<int>& l) {
            const int how = rng.range(0, 4);
            if (how == 0 && !l.empty())
              l.pop_back();
            else if (how == 1 && !l.empty())
              l.erase(l.begin());
            else if (how == 2)
              l.push_back(l.empty() ? 1 : l.back() + 1);
            else if (how == 3)
              l.insert(l.begin(), l.empty() ? 1 : l.front() - 1);
            else
              l.resize(rng.range(0, 9), 1);
          };
          int declared = S;
          switch (rng.range(0, 9))
            {
            case 0:
              other_len(mn);
              break;
            case 1:
              other_len(mx);
              break;
            case 2:
              other_len(ax);
              if (ax.empty())
                ax.push_back(1); // `matrix size [2] := {}` is rejected earlier (dimension not present): same answer, other code
              break;
            case 3:
              declared = std::max(1, S + (rng.coin() ? 1 : -1) * rng.range(1, 2));
              break;
            case 4:
              has_min = rng.coin();
              has_max = !has_min || rng.coin();
              if (has_min && has_max)
                {
                  other_len(mn);
                  other_len(mx);
                }
              break;
            default: // consistent
              break;
            }
          std::vector<std::string> l = base;
          l[l_seg] = "!matrix size [4] := " + std::to_string(declared);
          l[l_ax] = "!matrix size [2] := " + fmt(ax);
          l[l_min] = has_min ? "minimum ring difference per segment := " + fmt(mn) : std::string("; (no minimum ring differences)");
          l[l_max] = has_max ? "maximum ring difference per segment := " + fmt(mx) : std::string("; (no maximum ring differences)");
          std::string ans;
          try
            {
              InterfilePDFSHeader hdr;
              std::istringstream in(join_lines(l));
              if (!hdr.parse(in) || !hdr.data_info_sptr)
                ans = "rej";
              else
                {
                  const int a = hdr.data_info_sptr->get_min_segment_num(), b = hdr.data_info_sptr->get_max_segment_num();
                  ans = "ok " + std::to_string(a) + " " + std::to_string(b);
                  ++g_oracle_checks;
                  const std::size_t nseg = static_cast<std::size_t>(b - a + 1);
                  if (static_cast<int>(nseg) != declared || ax.size() != nseg || (has_min && mn.size() != nseg) || (has_max && mx.size() != nseg))
                    oracle_fail("Interfile projection-data header accepted with " + std::to_string(nseg) + " segments although it says 'matrix size [4] := "
                                + std::to_string(declared) + "', 'matrix size [2] := " + fmt(ax) + "', minimum ring differences " + (has_min ? fmt(mn) : "(absent)")
                                + ", maximum ring differences " + (has_max ? fmt(mx) : "(absent)"));
                }
            }
          catch (std::bad_alloc&)
            {
              throw;
            }
          catch (std::exception&)
            {
              ans = "err";
            }
          emit("pdfsseg " + std::to_string(declared) + toks(ax) + " |" + (has_min ? toks(mn) : std::string(" -")) + " |" + (has_max ? toks(mx) : std::string(" -")), ans);
        }
    }


  // ================================================================ 4d. Interfile image / multiple-data-set headers, size-giving keys in ANY order
  // op: hdr image x<text> | hdr multi x<text>     answer: rej | err | ok <all modelled members of the header object>
  // ORACLE (i): an accepted header object has every table at the announced length (image_tables_check);
  // ORACLE (ii): a header whose size-giving lines come in another order is rejected or gives the members of the writer's order.
  {
    const int ncanon = thorough ? 900 : 150, nperm = 2;
    long accepted = 0, permuted_accepted = 0;
    for (int c = 0; c < ncanon; ++c)
      {
        const bool with_faults = rng.range(0, 2) == 0;
        const GenHeader g = gen_image_header(rng, false, with_faults);
        const std::string canon_text = join_lines(g.lines);
        const HdrResult canon = run_image_header(canon_text);
        emit("hdr image " + hexs(canon_text), canon.answer);
        accepted += canon.accepted;
        ++g_oracle_checks;
        if (!with_faults && !canon.accepted)
          oracle_fail("valid Interfile image header (" + std::to_string(g.T) + " time frames, " + std::to_string(g.K) + " data types, keys in the writer's order) is not accepted ("
                      + canon.answer + "): " + canon_text);
        ++g_oracle_checks;
        if (canon.accepted && !canon.tables_why.empty())
          oracle_fail("Interfile image header accepted with tables that do not have the announced length (" + canon.tables_why + "): " + canon_text);
        const std::vector<std::pair<std::string, std::vector<std::string>>> directed = c17::directed_reorders(g.lines);
        for (int k = 0; k < nperm + static_cast<int>(directed.size()); ++k)
          {
            std::string how;
            std::vector<std::string> pl;
            if (k < nperm)
              pl = c17::reorder_header(g.lines, rng, how);
            else
              {
                how = directed[k - nperm].first;
                pl = directed[k - nperm].second;
              }
            bool type_moved = false;
            if (k < nperm && rng.range(0, 11) == 0)
              { // the keys 'PET data type' / 'data offset in bytes' exist only AFTER 'type of data := PET': move that line as well
                for (std::size_t j = 1; j + 1 < pl.size(); ++j)
                  if (c17::std_key_of(pl[j]) == "type of data")
                    {
                      const std::string tl = pl[j];
                      pl.erase(pl.begin() + j);
                      pl.insert(pl.begin() + rng.range(static_cast<int>(j), static_cast<int>(pl.size()) - 1), tl);
                      type_moved = true;
                      how += " + 'type of data' moved";
                      break;
                    }
              }
            const std::string text = join_lines(pl);
            const HdrResult r = run_image_header(text);
            emit("hdr image " + hexs(text), r.answer);
            permuted_accepted += r.accepted;
            ++g_oracle_checks;
            if (r.accepted && !r.tables_why.empty())
              oracle_fail("Interfile image header (" + how + ") accepted with tables that do not have the announced length (" + r.tables_why + "): " + text);
            if (r.accepted && canon.accepted && !type_moved)
              {
                ++g_oracle_checks;
                if (r.dump != canon.dump)
                  oracle_fail("Interfile image header with the size-giving keys in another order (" + how + ") is accepted with OTHER values than in the writer's order: "
                              + r.dump + " / writer's order: " + canon.dump + " / header: " + text);
              }
          }
      }
    ++g_oracle_checks;
    if (accepted < ncanon / 3 || permuted_accepted < ncanon / 2)
      oracle_fail("header-order generator: too few accepted headers (" + std::to_string(accepted) + " canonical, " + std::to_string(permuted_accepted)
                  + " permuted): the generator or the library's reading of its own key set changed");
    // ---- per-plane lists of scaling factors in front of a count key (oracle only: see KNOWN-CANDIDATE text)
    const int nlist = thorough ? 600 : 120;
    for (int c = 0; c < nlist; ++c)
      {
        const GenHeader g = gen_image_header(rng, true, false);
        const HdrResult canon = run_image_header(join_lines(g.lines));
        ++g_oracle_checks;
        if (!canon.accepted)
          {
            oracle_fail("valid Interfile image header with per-plane image scaling factors rejected: " + join_lines(g.lines));
            continue;
          }
        std::string how;
        const std::string text = join_lines(c17::reorder_header(g.lines, rng, how));
        const HdrResult r = run_image_header(text);
        ++g_oracle_checks;
        if (r.accepted && !r.tables_why.empty())
          oracle_fail("Interfile image header (" + how + ") accepted with tables that do not have the announced length (" + r.tables_why + "): " + text);
        else if (r.accepted && r.dump != canon.dump)
          {
            // is the list of image scaling factors the only member that differs?
            auto without_scaling = [](const std::string& d) {
              std::vector<std::string> t = vh::split(d);
              std::string o;
              int vl = 0;
              for (auto& x : t)
                if (!(x.compare(0, 3, "vl:") == 0 && ++vl == 2))
                  o += x + " ";
              return o;
            };
            if (without_scaling(r.dump) == without_scaling(canon.dump))
              known_candidate("interfile:scaling-factor-list-before-count-key",
                              "an Interfile image header that gives 'image scaling factor[i] := {one value per plane}' BEFORE 'number of time frames' / 'number of image "
                              "data types' is accepted, but every list is silently cut down to its first element, which is then used for all planes "
                              "(InterfileHeader::read_frames_info / InterfileImageHeader::read_image_data_types run image_scaling_factors[i].resize(1, 1.) over ALL data "
                              "sets, not only the new ones); same header with the count key first keeps the lists. E.g. (" + how + "): " + text);
            else
              oracle_fail("Interfile image header with the size-giving keys in another order (" + how + ") is accepted with OTHER values than in the writer's order: " + r.dump
                          + " / writer's order: " + canon.dump + " / header: " + text);
          }
      }
    // ---- MultipleDataSetHeader
    const int nmulti = thorough ? 500 : 120;
    for (int c = 0; c < nmulti; ++c)
      {
        const int N = rng.range(0, 4), fault = rng.range(0, 11);
        std::vector<std::string> l;
        l.push_back(rng.range(0, 9) == 0 ? "MULTI:=" : "Multi :=");
        l.push_back((rng.range(0, 3) == 0 ? equivalent_variant(rng, "total number of data sets") : std::string("total number of data sets")) + " := "
                    + (fault == 0 ? "-1" : fault == 1 ? std::to_string(N + 1) : std::to_string(N)));
        for (int i = 1; i <= N + (fault == 2 ? 1 : 0); ++i)
          l.push_back("data set[" + std::to_string(i) + "] := " + (fault == 3 && i == N ? std::string() : "file_" + std::to_string(i) + ".hs"));
        l.push_back("End :=");
        const std::string canon_text = join_lines(l);
        const HdrResult canon = run_multi_header(canon_text);
        emit("hdr multi " + hexs(canon_text), canon.answer);
        for (int k = 0; k < 2; ++k)
          {
            std::string how;
            const std::string text = join_lines(c17::reorder_header(l, rng, how));
            const HdrResult r = run_multi_header(text);
            emit("hdr multi " + hexs(text), r.answer);
            ++g_oracle_checks;
            if (r.accepted && canon.accepted && r.dump != canon.dump)
              oracle_fail("MultipleDataSetHeader with its lines in another order (" + how + ") is accepted with other values: " + r.dump + " / " + canon.dump + " / " + text);
          }
      }
  }

  // ================================================================ 4e. copies of ParsingObjects
  // op: po new | po copy <i> | po assign <i> <j> | po parse <i> x<text> | po info <i> | po destroy <i>
  // ORACLE: a copy prints the values it was copied with; an operation on one object never changes what another object prints;
  //         the text a copy prints parses into a fresh object that prints the same text.
  {
    const int nhist = thorough ? 400 : 70;
    for (int hst = 0; hst < nhist; ++hst)
      {
        po_describe_class();
        std::vector<std::unique_ptr<ProbeObject>> obj;
        std::vector<std::string> expect; // what object k has to print
        auto live = [&]() {
          std::vector<int> r;
          for (std::size_t k = 0; k < obj.size(); ++k)
            if (obj[k])
              r.push_back(static_cast<int>(k));
          return r;
        };
        auto info = [&](int k) {
          const std::string s = obj[k]->parameter_info();
          emit("po info " + std::to_string(k), hexs(s));
          return s;
        };
        auto others_unchanged = [&](int except, const std::string& after) {
          for (int k : live())
            if (k != except)
              {
                const std::string s = info(k);
                ++g_oracle_checks;
                if (s != expect[k])
                  oracle_fail("ParsingObject copies: after '" + after + "' object " + std::to_string(k) + " (not involved) prints other values than before: "
                              + first_difference(expect[k], s));
              }
        };
        auto pick = [&]() {
          const std::vector<int> l = live();
          return l[rng.range(0, static_cast<int>(l.size()) - 1)];
        };
        obj.emplace_back(new ProbeObject);
        emit("po new", "0");
        expect.push_back(info(0));
        const int nops = rng.range(8, 22);
        for (int step = 0; step < nops; ++step)
          {
            if (live().empty())
              break;
            const int what = rng.range(0, 11);
            if (what <= 4)
              { // parse other values into one object
                const int i = pick();
                const std::string text = po_text(rng);
                std::string tag;
                try
                  {
                    std::istringstream in(text);
                    tag = obj[i]->parse(in) ? "ok1" : "ok0";
                  }
                catch (std::bad_alloc&)
                  {
                    throw;
                  }
                catch (std::exception&)
                  {
                    tag = "err";
                  }
                emit("po parse " + std::to_string(i) + " " + hexs(text), tag + " " + obj[i]->dump());
                expect[i] = info(i);
                others_unchanged(i, "parse into object " + std::to_string(i));
              }
            else if (what <= 7 && obj.size() < 9)
              { // copy constructor
                const int i = pick();
                obj.emplace_back(new ProbeObject(*obj[i]));
                const int k = static_cast<int>(obj.size()) - 1;
                emit("po copy " + std::to_string(i), std::to_string(k));
                expect.push_back(expect[i]);
                if (rng.coin())
                  { // the copy is looked at right away ...
                    const std::string s = info(k);
                    ++g_oracle_checks;
                    if (s != expect[i])
                      oracle_fail("ParsingObject copies: a fresh copy of object " + std::to_string(i) + " does not print the values it was copied with: " + first_difference(expect[i], s));
                    // ... and its text parses into a new object that prints the same text
                    ProbeObject fresh;
                    std::istringstream in(s);
                    ++g_oracle_checks;
                    bool ok = false;
                    try
                      {
                        ok = fresh.parse(in) && fresh.parameter_info() == s;
                      }
                    catch (std::exception&)
                      {}
                    if (!ok)
                      oracle_fail("ParsingObject copies: the text printed by a copy does not parse back into an object printing the same text: " + s);
                  }
                // (... or only after the original has been changed or destroyed: see the following operations)
              }
            else if (what <= 9 && live().size() >= 2)
              { // assignment
                const int i = pick(), j = pick();
                *obj[i] = *obj[j];
                emit("po assign " + std::to_string(i) + " " + std::to_string(j), "ok");
                expect[i] = expect[j];
                others_unchanged(-1, "assignment of object " + std::to_string(j) + " to object " + std::to_string(i));
              }
            else if (live().size() >= 2)
              { // destruction
                const int i = pick();
                obj[i].reset();
                emit("po destroy " + std::to_string(i), "ok");
                others_unchanged(i, "destruction of object " + std::to_string(i));
              }
          }
      }
    emit("cfg reset", "ok");
  }

  // ================================================================ 5. property oracle on KeyParser itself
  {
    const int n = thorough ? 4000 : 800;
    for (int k = 0; k < n; ++k)
      {
        ProbeTable t(true, 3);
        const int which = rng.range(0, 5);
        // ---- (a) keyword matching ignores case and white space; aliases resolve
        {
          const bool use_alias = rng.range(0, 2) == 0;
          std::string key, expect;
          const int val = rng.range(-999, 999);
          const std::string sval = std::string(WORDS[rng.range(0, NWORDS - 1)]) + " " + WORDS[rng.range(0, NWORDS - 1)];
          if (which % 2 == 0)
            key = use_alias ? "nr of things" : "number of things";
          else
            key = use_alias ? "old name" : "a name";
          const std::string line = equivalent_variant(rng, key) + (rng.coin() ? ":=" : " := ") + (which % 2 == 0 ? std::to_string(val) : sval);
          const std::string ans = t.parse_here(PROBE_START + line + "\n" + PROBE_STOP);
          ++g_oracle_checks;
          const bool ok = ans.substr(0, 3) == "ok1" && (which % 2 == 0 ? t.n_things->i == val : t.a_name->s == sval);
          if (!ok)
            oracle_fail(std::string(use_alias ? "alias" : "keyword") + " variant not matched: line '" + line + "' should set '"
                        + (which % 2 == 0 ? "number of things" : "a name") + "'; parser answered " + ans);
        }
        // ---- (b) vectorised keys are stored at the index given (1-based), nothing else changes
        {
          const int idx = rng.range(-1, 5);
          const int val = rng.range(100, 999);
          const std::vector<int> before = t.vints->il;
          const std::string line = "v ints[" + std::to_string(idx) + "] := " + std::to_string(val);
          const std::string ans = t.parse_here(PROBE_START + line + "\n" + PROBE_STOP);
          std::vector<int> expect = before;
          const bool in_range = idx >= 1 && idx <= static_cast<int>(before.size());
          if (in_range)
            expect[idx - 1] = val;
          ++g_oracle_checks;
          const bool ok = t.vints->il == expect && (in_range ? ans.substr(0, 3) == "ok1" : ans.substr(0, 3) == "err");
          if (!ok)
            oracle_fail("vectorised key: line '" + line + "' on a vector of size " + std::to_string(before.size()) + " gave " + ans);
        }
        // ---- (c) parameter_info -> parse -> parameter_info on random printable values
        {
          ProbeTable a(true, 3), b(true, 3);
          a.n_things->i = rng.range(-100000, 100000);
          a.a_name->s = std::string(WORDS[rng.range(0, NWORDS - 1)]) + (rng.coin() ? std::string(" ") + WORDS[rng.range(0, NWORDS - 1)] : "");
          a.flag->b = rng.coin();
          a.mode->choice = rng.range(0, 2);
          a.ilist->il.clear();
          for (int j = rng.range(0, 4); j > 0; --j)
            a.ilist->il.push_back(rng.range(-50, 50));
          a.slist->sl.clear();
          for (int j = rng.range(0, 3); j > 0; --j)
            a.slist->sl.push_back(WORDS[rng.range(0, 20)]);
          for (int j = 0; j < 3; ++j)
            {
              a.vints->il[j] = rng.range(-9, 9);
              a.vnames->sl[j] = WORDS[rng.range(0, 20)];
              a.vlists->vl[j].assign(rng.range(0, 3), rng.range(1, 64));
            }
          const std::string s1 = a.kp->parameter_info();
          const std::string ans = b.parse_here(s1);
          const std::string s2 = b.kp->parameter_info();
          ++g_oracle_checks;
          if (ans.substr(0, 3) != "ok1" || s1 != s2)
            oracle_fail("KeyParser round trip: parameter_info -> parse (" + ans.substr(0, 3) + ") -> parameter_info differs: " + first_difference(s1, s2));
        }
      }
    // ---- (a2) aliases resolve to their target whatever the spelling of the registered keyword, of the target named in
    //           add_alias_key, of the alias, and of the alias on the line
    {
      const int na = thorough ? 3000 : 600;
      for (int k = 0; k < na; ++k)
        {
          Probe q;
          int target_var = -12345, other_var = -777;
          const std::string key = random_key(rng), al = random_key(rng) + (rng.coin() ? " (old)" : " alt");
          if (q.stdk(key) == q.stdk(al) || q.stdk(key).empty() || q.stdk(key) == "other key")
            continue;
          const std::string registered = rng.range(0, 3) == 0 ? key : equivalent_variant(rng, key);
          const std::string named = rng.range(0, 3) == 0 ? registered : equivalent_variant(rng, key);
          const std::string alias_reg = rng.coin() ? al : equivalent_variant(rng, al);
          const std::string alias_line = rng.range(0, 3) == 0 ? alias_reg : equivalent_variant(rng, al);
          const bool dep = rng.coin();
          q.add_start_key("Alias Probe");
          q.add_key("other key", &other_var);
          q.add_key(registered, &target_var);
          q.add_alias_key(named, alias_reg, dep);
          q.add_stop_key("End Alias Probe");
          const int val = rng.range(-999, 999);
          const std::string line = alias_line + (rng.coin() ? ":=" : " := ") + std::to_string(val);
          std::string tag;
          try
            {
              std::istringstream is("Alias Probe :=\n" + line + "\nEnd Alias Probe :=\n");
              tag = q.parse(is) ? "ok1" : "ok0";
            }
          catch (std::exception&)
            {
              tag = "err";
            }
          ++g_oracle_checks;
          if (tag != "ok1" || target_var != val || other_var != -777)
            oracle_fail("alias does not resolve to its target: key registered as '" + registered + "', add_alias_key('" + named + "', '" + alias_reg
                        + "', " + (dep ? "true" : "false") + "), line '" + line + "': parse answered " + tag + ", variable = " + std::to_string(target_var)
                        + " (expected " + std::to_string(val) + ")");
        }
    }
    // ---- (b2) every vectorised key type (int, unsigned, unsigned long, float, double, string, list of ints, list of doubles):
    //           index 0, negative, 1..size, size+1, beyond
    vectorised_oracle(rng, thorough);
    // ---- (d) string lists are split at commas and every element is trimmed like a scalar string (no character is lost)
    {
      auto blanks = [&](int maxn) {
        std::string b;
        for (int k = rng.range(0, maxn); k > 0; --k)
          b += rng.coin() ? ' ' : '\t';
        return b;
      };
      const int nlists = thorough ? 2000 : 400;
      for (int k = 0; k < nlists; ++k)
        {
          std::vector<std::string> expect;
          std::string value = "{";
          const int ne = rng.range(1, 4);
          for (int j = 0; j < ne; ++j)
            {
              std::string e = WORDS[rng.range(0, 20)];
              if (rng.coin())
                e += std::string(rng.coin() ? " " : "\t ") + WORDS[rng.range(0, 20)];
              expect.push_back(e);
              value += (j ? "," : "") + blanks(2) + e + blanks(2);
            }
          const int form = rng.range(0, 3); // 0,1: closed list; 2: closing brace missing; 3: single value without braces
          if (form <= 1)
            value += "}" + blanks(2);
          else if (form == 3)
            {
              expect.resize(1);
              value = expect[0] + blanks(3);
            }
          ProbeTable t(true, 3);
          const std::string line = "string list :=" + blanks(2) + value;
          const std::string ans = t.parse_here(PROBE_START + line + "\n" + PROBE_STOP);
          ++g_oracle_checks;
          if (ans.substr(0, 3) != "ok1" || t.slist->sl != expect)
            known_candidate("keyparser:string-list-trailing-whitespace",
                            "KeyParser vector<string> values (get_vparam_from_string<vector<string>>, KeyParser.cxx): the line '" + line
                                + "' is stored as " + fmt_strs(t.slist->sl) + " (hex), expected " + fmt_strs(expect)
                                + " (elements split at ',' and trimmed of blanks/tabs at both ends, no character lost)");
        }
    }
    // ---- (e) input that ends in a continuation backslash terminates
    {
      ProbeTable t(true, 3);
      ++g_oracle_checks;
      if (t.hangs(PROBE_START + "a name := foo\\"))
        known_candidate("keyparser:continuation-backslash-at-eof",
                        "KeyParser::parse of a text whose last byte is the continuation character '\\' (e.g. a header truncated after a "
                        "backslash: 'Probe Parameters :=|a name := foo\\') does not return: read_line() (KeyParser.cxx:70-146) keeps appending "
                        "the unchanged 'thisline' because std::getline leaves it untouched at EOF; memory grows until bad_alloc / the process is killed");
    }
  }

  // ================================================================ 6. projection-data headers of TOF-capable scanners, TOF / size-giving keys in ANY order
  // op: hdr pdfs <known> <max TOF bins> <bin size> <resolution> x<text>      (the scanner that 'originating system' names)
  // answer: rej | err | errmash | erreven | errtof | ok <num_timing_poss> <TOF bins of the geometry> <TOF mashing factor of the geometry> <segments> <views> <bins> <axial positions…>
  // against the Lean model of find_storage_order / resize_segments_and_set / the size part of InterfilePDFSHeader::post_processing.
  // ORACLE: accepted => the geometry that was built has exactly the TOF bins the header declares (1 for 4-D, 'matrix size [5]'
  //         for 5-D) and sum(axial positions) x views x tangential positions of the 'matrix size' lines.
  {
    vh::Rng rng6(std::strtoull(argv[1], nullptr, 10) * 69069ULL + 6006);
    long n_ops = 0, n_ok = 0, n_errtof = 0, n_rej = 0;
    for (int b = 0; b < 4; ++b)
      {
        std::string base_text;
        try
          {
            const bool named = b >= 2, tof = b % 2 == 1;
            shared_ptr<Scanner> scanner;
            shared_ptr<ProjDataInfo> pdi;
            if (named)
              {
                scanner.reset(new Scanner(Scanner::Discovery690));
                pdi = vh::make_pdi(scanner, 1, rng6.range(0, 1), 18, rng6.range(3, 6), false, tof ? 5 : 0);
              }
            else
              {
                scanner = vh::make_scanner(2 * rng6.range(4, 10), rng6.range(2, 4), tof ? 15 : 2 * rng6.range(2, 5) + 1);
                pdi = vh::make_pdi(scanner, 1, scanner->get_num_rings() - 1, scanner->get_num_detectors_per_ring() / 2, scanner->get_num_detectors_per_ring() / 2 - 1,
                                   false, tof ? 3 : 0);
              }
            shared_ptr<ExamInfo> exam(new ExamInfo);
            exam->imaging_modality = ImagingModality::PT;
            const std::string base = outdir + "/tofhdr_" + std::to_string(b);
            {
              ProjDataInterfile pd(exam, pdi, base);
            }
            base_text = slurp(base + ".hs");
          }
        catch (std::exception& e)
          {
            ++g_oracle_checks;
            oracle_fail(std::string("TOF header family: the library could not write its own projection-data header: ") + one_line(e.what()));
            continue;
          }
        const std::vector<std::string> lines = split_lines(base_text);
        const int n = static_cast<int>(lines.size());
        // the scanner named by 'originating system', as post_processing will look it up
        std::string cfg = "0 -1 -1 -1";
        long maxtof = 55, mash = 0;
        {
          std::string name;
          for (const std::string& l : lines)
            {
              const std::string k = c17::std_key_of(l);
              const std::size_t as = l.find(":=");
              if (as == std::string::npos)
                continue;
              std::string v = l.substr(as + 2);
              while (!v.empty() && v[0] == ' ')
                v.erase(0, 1);
              if (k == "originating system")
                name = v;
              if (k == "maximum number of (unmashed) tof time bins")
                maxtof = std::atol(v.c_str());
              if (k == "tof mashing factor")
                mash = std::atol(v.c_str());
            }
          shared_ptr<Scanner> guess(Scanner::get_scanner_from_name(name));
          const bool known = guess->get_type() != Scanner::Unknown_scanner && guess->get_type() != Scanner::User_defined_scanner;
          cfg = std::string(known ? "1 " : "0 ") + std::to_string(guess->get_max_num_timing_poss()) + " " + std::to_string(static_cast<long>(guess->get_size_of_timing_pos())) + " "
                + std::to_string(static_cast<long>(guess->get_timing_resolution()));
        }
        auto run = [&](const std::vector<std::string>& l, const std::string& how) {
          const std::string text = join_lines(l);
          std::string ans;
          try
            {
              c17::PdfsHdrProbe h;
              std::istringstream in(text);
              if (!h.parse(in) || !h.data_info_sptr)
                {
                  ans = "rej";
                  ++n_rej;
                }
              else
                {
                  ++n_ok;
                  const ProjDataInfo& pi = *h.data_info_sptr;
                  ans = "ok " + std::to_string(h.num_timing_poss) + " " + std::to_string(pi.get_num_tof_poss()) + " " + std::to_string(pi.get_tof_mash_factor()) + " "
                        + std::to_string(h.num_segments) + " " + std::to_string(h.num_views) + " " + std::to_string(h.num_bins);
                  long axial = 0, axial_info = 0;
                  for (int a : h.num_rings_per_segment)
                    {
                      ans += " " + std::to_string(a);
                      axial += a;
                    }
                  for (int seg = pi.get_min_segment_num(); seg <= pi.get_max_segment_num(); ++seg)
                    axial_info += pi.get_num_axial_poss(seg);
                  g_oracle_checks += 2;
                  const long declared = h.num_dimensions == 4 ? 1 : (h.num_dimensions == 5 && h.matrix_size.size() == 5 && !h.matrix_size[4].empty() ? h.matrix_size[4][0] : -1);
                  if (pi.get_num_tof_poss() != h.num_timing_poss || declared != pi.get_num_tof_poss())
                    oracle_fail("Interfile projection-data header (" + how + ") accepted: the geometry has " + std::to_string(pi.get_num_tof_poss())
                                + " TOF bins (TOF mashing factor " + std::to_string(pi.get_tof_mash_factor()) + "), the header declares " + std::to_string(declared)
                                + " ('number of dimensions := " + std::to_string(h.num_dimensions) + "'): " + text);
                  if (axial != axial_info || pi.get_num_views() != h.num_views || pi.get_num_tangential_poss() != h.num_bins)
                    oracle_fail("Interfile projection-data header (" + how + ") accepted with a geometry whose sizes differ from the 'matrix size' lines: " + text);
                }
            }
          catch (std::bad_alloc&)
            {
              throw;
            }
          catch (std::exception& e)
            {
              const std::string w = e.what();
              ans = w.find("must be smaller than or equal to the scanner's number of max timing bins") != std::string::npos ? "errmash"
                    : w.find("Number of TOF bins should be an odd number") != std::string::npos                          ? "erreven"
                    : w.find("inconsistency between number of TOF bins") != std::string::npos                             ? "errtof"
                                                                                                                           : "err";
              if (ans == "errtof")
                ++n_errtof;
            }
          emit("hdr pdfs " + cfg + " " + hexs(text), ans);
          ++n_ops;
          return ans;
        };
        {
          ++g_oracle_checks;
          const std::string a = run(lines, "as written by the library");
          if (a.compare(0, 3, "ok ") != 0)
            oracle_fail("the library's own projection-data header of a TOF-capable scanner is not accepted (" + a + "): " + base_text);
        }
        auto insert_at = [&](const std::string& x, int pos) {
          std::vector<std::string> l = lines;
          l.insert(l.begin() + std::max(1, std::min(pos, n - 1)), x);
          return l;
        };
        std::vector<std::string> mash_lines, timing_lines;
        for (long m : { 0L, 1L, 3L, 5L, maxtof, maxtof + 1, -1L, 2L, mash })
          mash_lines.push_back(std::string(rng6.range(0, 3) == 0 ? "%TOF mashing factor := " : "TOF mashing factor := ") + std::to_string(m));
        for (long v : { maxtof, 3 * maxtof, 1L, 0L, -1L, 11L })
          {
            timing_lines.push_back("Maximum number of (unmashed) TOF time bins := " + std::to_string(v));
            timing_lines.push_back("Number of TOF time bins := " + std::to_string(v));
          }
        for (const char* v : { "89", "0", "-1" })
          {
            timing_lines.push_back(std::string("Size of unmashed TOF time bins (ps) := ") + v);
            timing_lines.push_back(std::string("Size of timing bin (ps) := ") + v);
            timing_lines.push_back(std::string("TOF timing resolution (ps) := ") + v);
            timing_lines.push_back(std::string("timing resolution (ps) := ") + v);
          }
        for (long T : { 1L, 3L, 5L, 11L })
          {
            std::string o = "TOF bin order := {";
            for (long j = 0; j < T; ++j)
              o += (j ? "," : "") + std::to_string(j - T / 2);
            timing_lines.push_back(o + "}");
          }
        // (a) a mashing-factor line at every position (quick: every position for two values, sampled for the others)
        for (std::size_t v = 0; v < mash_lines.size(); ++v)
          for (int pos = 1; pos < n; pos += (thorough || v == 3) ? 1 : 6)
            run(insert_at(mash_lines[v], pos + (thorough || v == 3 ? 0 : rng6.range(0, 5))), "'" + mash_lines[v] + "' inserted");
        // (b) the header's own TOF lines removed / moved
        for (int k = 1; k + 1 < n; ++k)
          {
            const std::string key = c17::std_key_of(lines[k]);
            if (key.find("tof") == std::string::npos && key.find("timing") == std::string::npos)
              continue;
            std::vector<std::string> without = lines;
            without.erase(without.begin() + k);
            run(without, "'" + key + "' removed");
            for (int j = 0; j < (thorough ? 40 : 6); ++j)
              {
                std::vector<std::string> l = without;
                l.insert(l.begin() + rng6.range(1, static_cast<int>(l.size()) - 1), lines[k]);
                run(l, "'" + key + "' moved");
              }
          }
        // (c) scanner timing keys / bin order inserted anywhere, alone and together with a mashing factor
        for (int j = 0; j < (thorough ? 1500 : 90); ++j)
          {
            std::vector<std::string> l = insert_at(timing_lines[rng6.range(0, static_cast<int>(timing_lines.size()) - 1)], rng6.range(1, n - 1));
            if (rng6.coin())
              l.insert(l.begin() + rng6.range(1, static_cast<int>(l.size()) - 1), mash_lines[rng6.range(0, static_cast<int>(mash_lines.size()) - 1)]);
            if (rng6.range(0, 3) == 0)
              l.insert(l.begin() + rng6.range(1, static_cast<int>(l.size()) - 1), timing_lines[rng6.range(0, static_cast<int>(timing_lines.size()) - 1)]);
            run(l, "TOF keys inserted");
          }
        // (d) the size-giving lines (number of dimensions, matrix size / axis label, ring differences) in another order, with and without a TOF key moved as well
        for (int j = 0; j < (thorough ? 600 : 50); ++j)
          {
            std::string how;
            std::vector<std::string> l = c17::reorder_header(lines, rng6, how);
            if (rng6.coin())
              l.insert(l.begin() + rng6.range(1, static_cast<int>(l.size()) - 1), mash_lines[rng6.range(0, static_cast<int>(mash_lines.size()) - 1)]);
            run(l, how);
          }
        for (auto& d : c17::directed_reorders(lines))
          run(d.second, d.first);
      }
    ++g_oracle_checks;
    if (n_ops < 400 || n_ok < 100 || n_errtof < 20 || n_rej < 5)
      oracle_fail("TOF header family: too few operations / verdicts of each kind (ops " + std::to_string(n_ops) + ", accepted " + std::to_string(n_ok) + ", refused by the final TOF check "
                  + std::to_string(n_errtof) + ", rejected " + std::to_string(n_rej) + "): the generator or the library's reading of its own keys changed");
  }

  std::fprintf(g_orc, "ORACLE-DONE checks=%ld fails=%ld\n", g_oracle_checks, g_oracle_fails);
  std::fclose(g_ops);
  std::fclose(g_out);
  std::fclose(g_orc);
  std::fclose(g_cls);
  return 0;
}
